"""C14 - caching functions are history-independent and interpolate the cached function (histories, inputs).

Caching1D/2D/3D wrap a *recording* Python function of a known family (multilinear, quadratic, product of sines).
One case = one caching configuration (area, resolution, no_boundary_error, function_boundaries), one function and
one list of evaluation points that is fed to fresh caches in two different orders and point by point.

What the code does (caching{1,2,3}d.pyx): per axis the node grid is  [min-res, linspace(min-1e-7, max+1e-7, n), max+res]
with n-1 = int((max-min)/res) cells; a cell's tensor-product cubic is built on first use from the 4^d surrounding node
samples (each node is sampled once, the value is kept in `data_view`): values and central-difference derivatives at
the 2^d corners (Catmull-Rom / cubic Hermite), a 4^d x 4^d `numpy.linalg.solve` for monomial coefficients in
area-normalised coordinates, then re-expansion ("denormalisation") to monomial coefficients in *raw* coordinates.
The only state is `data_view` (node samples), `coeffs_view`, `calculated_view`; a cell's coefficients are a pure
function of its 4^d node samples, so the arithmetic behind a value is the same whatever was evaluated before:
bit identity is demanded for history independence.
"""
import bisect
import math
import os

import numpy as np
from hypothesis import strategies as st

from ..core import Given
from ..findings import is_open

from raysect.core.math.function.float.function1d.autowrap import PythonFunction1D
from raysect.core.math.function.float.function2d.autowrap import PythonFunction2D
from raysect.core.math.function.float.function3d.autowrap import PythonFunction3D
from raysect.core.math.function.float import (Arg1D, Arg2D, Arg3D, Sin1D, Sin2D, Sin3D, Constant1D, Constant2D, Constant3D,
                                              Interpolator1DArray, Interpolator2DArray, Interpolator3DArray)
import cherab.core.math as CM
from cherab.core.math.caching import Caching1D, Caching2D, Caching3D

ID = "C14"
SHARDS = {"quick": 8, "thorough": 16}

_NOEX = set(filter(None, os.environ.get("VERIF_NO_EXCLUDE", "").split(",")))


def _excluded(fid):
    return is_open(fid) and not (fid in _NOEX or "all" in _NOEX)


# Open finding: genuinely cubic functions (sine products) on 2-D/3-D areas that lie several widths away from the origin
# (conditioning factor kappa > KAPPA_CAP) come back with errors far above the largest tolerance DESIGN allows (1e-6 max|f|),
# up to O(max|f|) at the cache's own sampling nodes.  While open, the generator constructs sine cases with kappa <= KAPPA_CAP.
EXCLUDE_ILL = _excluded("C14-raw-monomial-cancellation")

EPS = 1.e-7              # EPSILON of caching*.pyx: the node grid starts at min-EPS and ends at max+EPS
C_APPROX = 1.0           # |cache - f| <= C_APPROX * sum_a h_a^2 max|d2f/da2|  (+ floating-point tolerance)
FP_BASE = 1e-13          # floating-point tolerance = min(FP_BASE * kappa, FP_CAP) * S
FP_CAP = 1e-6
KAPPA_CAP = FP_CAP / FP_BASE
MAX_CW = 10.0            # |centre| / width per axis
MAX_NODES = 12           # sampling nodes re-evaluated per case

RULE = ("dimension 1/2/3 (sub-checks d1/d2/d3). Per axis one of: float (width 0.01..100, |centre|/width <= 10 with 0, <=1, <=10 mixed, "
        "3..12 cells, resolution = width/(cells+r), r in [0.05,0.95], or r = 0: resolution divides the width and the cell count is "
        "whatever int((max-min)/res) gives); small (1 or 2 cells, incl. a resolution larger than the width); large (13..200 cells in "
        "1-D, 13..40 in 2-D; 3-D stays <= 12: a 16-cell 3-D grid already shows 70 u kappa rounding noise in the 64x64 solve, 36 cells "
        "850 u, and one cache is 28 MB); int (integer limits and width, resolution 0.25..25: Python-int arguments possible). Axis "
        "kinds are drawn independently, so 2-D/3-D boxes are flat/anisotropic (width ratio up to 1e4, different node counts). "
        "no_boundary_error False/True; function_boundaries none / true enclosure of f on the sampled hull / loose (widened by up to "
        "100 |f| per side) / degenerate (min == max, for constant and non-constant f). "
        "Wrapped function: recording Python callable, families mlin (sum_m c_m prod_{a in m} t_a, cross terms included), quad (mlin + "
        "sum_a q_a t_a^2), sin (off + A prod_a sin(k_a (x_a - c_a) + phi_a), 0.5 <= k_a*width_a <= 2 pi), const; t_a = 2 (x_a - c_a)/width_a, "
        "amplitudes 1e-5..1e3. Points (3..12 per case): 2-3 strictly inside a base cell (first/last cell favoured), 1-2 in an adjacent "
        "cell (face, edge or corner neighbour), optionally the node/face shared by both, a corner node, points in other cells, points "
        "exactly on the area limits, at 0.0 / -0.0, on the two ends of the node grid (min-1e-7, max+1e-7), and 0-2 points outside (one "
        "or more axes 3e-7 .. 1000 widths beyond the area, both sides). The list is evaluated in the drawn order on one fresh cache "
        "(twice), in a drawn permutation on a second one, point by point on one fresh cache each, on caches with two of the other "
        "function_boundaries modes (same history, so neighbouring cells were built earlier), and on a cache built through other "
        "accepted input forms: area/resolution elements as int, numpy float64/float32/int64 (only where the value is identical), "
        "bounds as tuple/list/ndarray (float64, float32, int64), no_boundary_error positional / keyword / int / omitted, all-keyword "
        "construction, defaults omitted, wrapped function as raysect PythonFunctionND object, point coordinates as int / numpy "
        "scalars, evaluation through the C-level evaluate() (raysect MultiplyScalar wrapper cache*1.0), the bounds container "
        "overwritten by the caller after construction. "
        "Wrapped-function flavours (one per case, besides the recording callable): another, 1.5-4x coarser Caching object of the same "
        "dimension over an area that contains the outer cache's sampled hull (with / without its own no_boundary_error), a raysect "
        "arithmetic expression of Arg / Sin / constants equal to the family function, a raysect Constant, raysect InterpolatorNDArray "
        "and cherab InterpolateNDCubic (cubic, 4..7 knots per axis, constant extrapolation), cherab ClampOutput / ClampInput with "
        "limits outside the range, cherab Swizzle2D/3D of a permuted callable. The oracle is the object that was handed in, evaluated "
        "directly: nodes (corners of the visited cells) and outside pass-through for every flavour, multilinear exactness / h^2 bound "
        "for the flavours that are the family function itself, order independence with a second identical construction. "
        "Raising wrapped function (one per case): the function raises RuntimeError / ZeroDivisionError / KeyError / a custom exception "
        "once or twice, on its k-th call (k <= 4^d) or whenever it is called at one chosen node of the 4^d stencil of a visited cell "
        "(guard nodes min-res / max+res included), then works; the exception must leave evaluate() with the same type, and every "
        "evaluation that returns (retry at the same point, neighbours, second pass over the list) must be bit-equal to the cache over "
        "the never-failing function. "
        "Interference / repeat: every case carries a second configuration B of the same class (own function, area, resolution, options; "
        "in 1/3 of the cases the same area and resolution as A with another function; in 1/2 the same options as A; both are built "
        "with options equal to their defaults omitted). B is judged on its own against f_B; then a fresh A is evaluated point by "
        "point, each point twice in a row, B is evaluated in between, and the point once more: all bit-equal to the reference values "
        "of A alone, B's values bit-equal to B on its own; other order: A built, B built and used, A used for the first time. On one "
        "cache: p, a sibling point (same leading coordinates, other last coordinate), p again. "
        "Non-trivial: >= 2 evaluated points in one cell, points in >= 2 adjacent cells, and the two orders visit the cells "
        "in different sequences.")
ASSUMPTIONS = [
    "numpy.linalg.solve is deterministic for identical input within one process (./check pins BLAS to one thread), and the "
    "wrapped Python function is deterministic and finite: bit identity of values across histories is then the code's own "
    "arithmetic (coefficients depend only on the 4^d node samples of the cell)",
    "CPython float arithmetic and math.sin are what the recording function and the oracle both use (same function object)",
    "points in the 1e-7 margins just outside [min, max] (the code's grid reaches min-1e-7 .. max+1e-7) may either be treated as "
    "inside or as outside; 'outside' points are >= 3e-7 beyond the area; area limits themselves are inside",
    "curvature maxima are taken over the sampled hull (area extended by one resolution per side, where the border nodes are)",
    "sine-product cases with kappa > 1e7 are excluded while the finding C14-raw-monomial-cancellation is open",
    "input forms: an int / numpy scalar / float32 is only substituted where it holds exactly the same value as the float64, so the "
    "canonical construction (tuples of Python floats, keywords) must be reproduced bit for bit; space_area and the 2-D/3-D resolution "
    "are typed `tuple` in the constructors (lists are rejected with TypeError - not generated)",
    "x * 1.0 is exact, so (cache * 1.0)(p) exposes the bits returned by the C-level evaluate()",
    "wrapped-function flavours: an inner cache / cubic interpolator is a C1 piecewise cubic, not twice differentiable, so only node "
    "exactness, pass-through and history independence are demanded of it (no h^2 bound); its kappa uses degree 3 and the derivative "
    "scale K_a * (knot spacing of the wrapped object / outer node spacing)^(1/3) (second-derivative jumps at the inner knots raise "
    "the outer cubic's third-order coefficient by that ratio); |wrapped| <= 2.5 max|f| (Lebesgue constant^3); piecewise-linear "
    "wrapped objects (linear interpolators, active clamps) are not generated - no stated fp-tolerance model for kinked data",
]
TOLERANCES = {
    "history": "bit identity (float.hex) of returned values / identical ValueError outcome: same arithmetic, see module docstring",
    "pass-through": "== f(p) bit for bit, and p is among the recorded call arguments",
    "forms": "bit identity with the canonical construction at every point (same doubles reach the same arithmetic); the caller's bounds "
             "container must be unchanged after construction and overwriting it afterwards must not change any value",
    "fp": "node, multilinear, function_boundaries comparisons and the additive term of the approximation bound: "
          "tol = min(1e-13 * kappa, 1e-6) * S;  S = max(bound of |f| on the sampled hull, |data_min|, |data_max|) (normalised samples "
          "(v - data_min)/data_delta are rounded relative to the bounds); kappa = prod_a (1 + K_a X_a)^deg, deg = 1/2/3 for "
          "mlin/quad/sin (degree of f per coordinate, capped by the cubic), K_a = derivative scale of f (2/width_a for the "
          "polynomial families, k_a for sines), X_a = max(|min_a - res_a|, |max_a + res_a|, max_a - min_a + 2 res_a) = largest "
          "distance of a node from the two expansion origins (raw 0 and the normalisation origin). Reason: the cell polynomial "
          "is solved for and stored as monomial coefficients c_ijk, its evaluation error is gamma * sum |c_ijk| |x|^i |y|^j |z|^k "
          "(Higham, monomial-basis evaluation) and |c_i| <~ K^i max|f|. kappa generalises DESIGN's max(1, (|centre|/width)^3) to the "
          "tensor-product cubic; 1e-13 = 900 u covers the 4^d-term sums and the LU solve (measured: worst error 30 u kappa S over "
          "5000 random configurations; with 1e-14 the check stays quiet over 8000 cases, with 1e-15 it fails on 1-D quadratics at 20 u); the cap 1e-6 is the largest tolerance DESIGN allows (1e-9 * kappa_max = 1000).",
    "approx": "|cache(p) - f(p)| <= 1.0 * sum_a h_a^2 max|d2f/da2| + fp. A-priori bound of the scheme: in 1-D the cubic Hermite "
              "interpolant with central-difference slopes differs from the linear interpolant L by h |m_i - s| t(1-t) <= h^2 M/8 and "
              "|f - L| <= h^2 M/8, i.e. h^2 M/4 (border cells: |m_i - s| <= h' M/2 with the outer stencil step h' = res-1e-7, which is <= h "
              "for >= 3 cells; for 1- and 2-cell axes h' can exceed h, so h_a := max(h_a, res_a) is used); the 2-D/3-D "
              "interpolant is the tensor product P_x P_y P_z, so the error is <= h_x^2 M_x/4 + L h_y^2 M_y/4 + L^2 h_z^2 M_z/4 with the "
              "Lebesgue constant L = 1 + 2 a0 h10 + 2 a1 |h11| <= 1.34 (a = h/(h+h'): 1.25 uniform, 1.262 next to a border with >= 3 cells, "
              "<= 1.34 for 1-2 cells where h'/h >= 1/2): constant <= 0.45; the check uses 1.0 (x 2.2; DESIGN proposed 2). "
              "h_a = max((max_a - min_a + 2e-7)/cells_a, res_a).",
}

_ONLY = set(filter(None, os.environ.get("VERIF_ONLY", "").split(",")))
_COMMON = ("fam:mlin", "fam:quad", "fam:sin", "fam:const", "fb:none", "fb:true", "fb:loose", "fb:degenerate", "fb:degenerate-nonconst",
           "alt:none", "alt:true", "alt:loose", "alt:degenerate", "nbe:0", "nbe:1",
           "pt:on-node", "pt:on-limit", "pt:zero", "pt:grid-end", "pt:outside", "out:raised", "out:passthrough",
           "res:divides", "edge-cell:nondiv", "cells:1", "cells:2", "cells:3-12", "cells:max", "geom:int",
           # entry points / options / input forms: Caching{1,2,3}D.__init__ (positional, keywords, defaults), __call__, C-level evaluate()
           "form:all-keywords", "form:positional", "form:defaults-omitted", "form:nbe-int", "form:area-int", "form:area-numpy",
           "form:res-int", "form:res-numpy", "form:fb-list", "form:fb-ndarray", "form:fn-object", "form:pt-int", "form:pt-numpy",
           "form:via-evaluate", "caller:fb-mutated-after",
           "interference:A-first", "interference:B-first", "interference:both-defaults", "second:geom-own", "second:geom-same",
           "second:other-family", "repeat:in-a-row", "repeat:after-other", "repeat:sibling",
           # flavours of the wrapped function (besides the recording Python callable and form:fn-object)
           "wrapped:inner-cache", "wrapped-node:inner-cache", "wrapped:expr", "wrapped:constant", "wrapped:interp-raysect",
           "wrapped:interp-cherab", "wrapped:cherab-clamp",
           "raise:kth", "raise:node", "raise:guard-node", "raise:propagated", "raise:twice", "raise:retry-ok")
REQUIRED_LABELS = [l for l in
                   ["%s:%s" % (d, x) for d in ("d1", "d2", "d3") for x in _COMMON]
                   + ["d1:wrapped:cherab-clampinput", "d2:wrapped:cherab-swizzle", "d3:wrapped:cherab-swizzle", "d1:cells:large", "d2:cells:large", "d2:aniso", "d3:aniso", "d2:mlin:cross-inside", "d3:mlin:cross-inside"]
                   if not _ONLY or l.split(":")[0] in _ONLY]

CLASSES = {1: Caching1D, 2: Caching2D, 3: Caching3D}
PYFUNC = {1: PythonFunction1D, 2: PythonFunction2D, 3: PythonFunction3D}


# ------------------------------------------------------------------------------------------------ geometry helpers
def n_cells(lo, hi, res):
    """Number of interior cells exactly as the constructor computes it."""
    return max(int((hi - lo) / res) + 1, 2) - 1


def grid(lo, hi, res):
    """Interior node grid, the same numpy call as the constructor."""
    return [float(v) for v in np.linspace(lo - EPS, hi + EPS, n_cells(lo, hi, res) + 1)]


def kappa_of(dim, area, res, fn):
    k = 1.0
    for a in range(dim):
        lo, hi, d = area[2 * a], area[2 * a + 1], res[a]
        X = max(abs(lo - d), abs(hi + d), hi - lo + 2 * d)
        if fn["kind"] == "sin":
            K, deg = fn["kw"][a] / (hi - lo), 3
        else:
            K, deg = 2.0 / (hi - lo), (2 if fn["kind"] == "quad" else 1)
        k *= (1.0 + K * X) ** deg
    return k


# ------------------------------------------------------------------------------------------------ recording function
class Fn:
    """Recording callable of a known family; centre/width per axis are those of the caching area."""

    def __init__(self, spec, dim, area, res):
        self.kind = spec["kind"]
        self.dim = dim
        self.c = [0.5 * (area[2 * a] + area[2 * a + 1]) for a in range(dim)]
        self.w = [area[2 * a + 1] - area[2 * a] for a in range(dim)]
        self.ext = [1.0 + 2.0 * res[a] / self.w[a] for a in range(dim)]     # max |t_a| on the sampled hull
        self.calls = []
        if self.kind == "sin":
            self.A, self.off = float(spec["A"]), float(spec["off"])
            self.k = [float(spec["kw"][a]) / self.w[a] for a in range(dim)]
            self.ph = [float(v) for v in spec["ph"]]
            self.absmax = abs(self.off) + abs(self.A)
            self.range = (self.off - abs(self.A), self.off + abs(self.A))
            self.curv = [abs(self.A) * self.k[a] ** 2 for a in range(dim)]
        else:
            self.co = [float(v) for v in spec["co"]]
            self.q = [float(v) for v in spec.get("q", [0.0] * dim)]
            s = 0.0
            for m, cm in enumerate(self.co):
                t = abs(cm)
                for a in range(dim):
                    if (m >> a) & 1:
                        t *= self.ext[a]
                s += t
            for a in range(dim):
                s += abs(self.q[a]) * self.ext[a] ** 2
            self.absmax = s
            self.range = (-s, s)
            self.curv = [2.0 * abs(self.q[a]) * (2.0 / self.w[a]) ** 2 for a in range(dim)]
        self.constant = self.kind != "sin" and not any(self.co[1:]) and not any(self.q)
        if self.constant:
            self.range = (self.co[0], self.co[0])

    def value(self, p):
        if self.kind == "sin":
            s = self.A
            for a in range(self.dim):
                s *= math.sin(self.k[a] * (p[a] - self.c[a]) + self.ph[a])
            return self.off + s
        t = [(p[a] - self.c[a]) * (2.0 / self.w[a]) for a in range(self.dim)]
        s = 0.0
        for m, cm in enumerate(self.co):
            if cm == 0.0:
                continue
            term = cm
            for a in range(self.dim):
                if (m >> a) & 1:
                    term *= t[a]
            s += term
        for a in range(self.dim):
            if self.q[a] != 0.0:
                s += self.q[a] * t[a] * t[a]
        return s

    def __call__(self, *p):
        self.calls.append(tuple(float(v) for v in p))
        return self.value(p)


# ------------------------------------------------------------------------------------------------ strategy
_INT_W = [2, 3, 4, 5, 7, 8, 10, 12, 20, 50, 100]
_INT_R = [0.25, 0.5, 1.0, 2.0, 5.0, 10.0, 25.0]
LARGE = {1: 200, 2: 40}                      # largest cell count per axis (3-D stays at 12, see RULE)


def _axis(dim):
    """[kind, width, centre/width, cells, r]; kinds: float (3..12 cells), small (1 or 2 cells), large, int (integer geometry)."""
    width = st.one_of(st.sampled_from([0.01, 0.1, 1.0, 2.0, 7.0, 10.0, 100.0]), st.floats(0.01, 100.0))
    cw = st.one_of(st.just(0.0), st.floats(-1.0, 1.0), st.floats(-MAX_CW, MAX_CW), st.sampled_from([-MAX_CW, MAX_CW, 0.5, -0.5]))
    rf = st.one_of(st.floats(0.05, 0.95), st.just(0.0))
    kinds = [st.tuples(st.just("float"), width, cw, st.integers(3, 12), rf)] * 5
    kinds.append(st.tuples(st.just("small"), width, cw, st.integers(0, 2), rf))
    kinds.append(st.tuples(st.just("int"), st.sampled_from(_INT_W), st.floats(-9.4, 9.4) | st.just(0.0), st.integers(0, 20), st.just(0.0)))
    if dim in LARGE:
        kinds.append(st.tuples(st.just("large"), width, cw, st.integers(13, LARGE[dim]) | st.just(LARGE[dim]), rf))
    return st.one_of(*kinds).map(list)


def _coef():
    """0 or a value of magnitude 0.01..1 (no subnormal amplitudes: relative tolerances are meaningless there)."""
    return st.one_of(st.floats(0.01, 1.0), st.floats(-1.0, -0.01), st.floats(0.01, 1.0), st.floats(-1.0, -0.01), st.just(0.0))


def _coord_in(ncell, cell=None, node=None):
    """One axis of a point inside the area: ["c", cell, t]."""
    ci = st.just(cell) if cell is not None else st.one_of(st.integers(0, ncell - 1), st.sampled_from([0, ncell - 1]))
    if node is True:
        t = st.just(0.0)
    elif node is False:
        t = st.floats(0.001, 0.999)
    else:
        t = st.one_of(st.floats(0.001, 0.999), st.floats(0.001, 0.999), st.just(0.0), st.just(0.5))
    return st.tuples(st.just("c"), ci, t).map(list)


def _coord_special():
    """Area limits, the coordinate 0.0 / -0.0 (when it lies in the area, else the lower limit), the two ends of the node grid."""
    return st.sampled_from([["lo"], ["hi"], ["lo"], ["hi"], ["zero", 1], ["zero", -1], ["gmin"], ["gmax"]])


def _coord_out():
    return st.one_of(
        st.tuples(st.just("out"), st.sampled_from([-1, 1]), st.floats(-4.0, 3.0)).map(list),
        st.tuples(st.just("near"), st.sampled_from([-1, 1])).map(list))


def _flavour():
    """How the function handed to the cache is realised (besides the recording Python callable of the main oracles)."""
    return st.one_of(
        st.fixed_dictionaries({"kind": st.just("cache"), "coarse": st.floats(1.5, 4.0), "nbe": st.booleans(),
                               "margin": st.lists(st.floats(0.0, 1.0), min_size=6, max_size=6)}),
        st.fixed_dictionaries({"kind": st.just("cache"), "coarse": st.floats(1.5, 4.0), "nbe": st.booleans(),
                               "margin": st.lists(st.floats(0.0, 1.0), min_size=6, max_size=6)}),
        st.fixed_dictionaries({"kind": st.just("expr")}),
        st.fixed_dictionaries({"kind": st.just("constant")}),
        st.fixed_dictionaries({"kind": st.sampled_from(["interp-raysect", "interp-cherab"]), "n": st.integers(4, 7)}),
        st.fixed_dictionaries({"kind": st.sampled_from(["clamp", "swizzle"])}))


def _fail():
    """A wrapped function that raises on chosen calls: the k-th call, or calls at one chosen stencil node (incl. guard nodes)."""
    return st.fixed_dictionaries({
        "mode": st.sampled_from(["kth", "node", "node"]), "kfrac": st.floats(0.0, 0.999), "pt": st.integers(0, 11),
        "off": st.lists(st.sampled_from([-1, -1, 0, 1, 2, 2]), min_size=3, max_size=3), "times": st.sampled_from([1, 1, 2]),
        "exc": st.sampled_from(["RuntimeError", "ZeroDivisionError", "KeyError", "Boom"])})


def _forms():
    """Input forms of the second, 'non-canonical' construction (values are the same doubles)."""
    return st.fixed_dictionaries({
        "area": st.sampled_from(["float", "int", "np64", "np32", "npint"]),
        "res": st.sampled_from(["float", "int", "np64", "np32"]),
        "fb": st.sampled_from(["tuple", "list", "nd64", "nd32", "ndint", "list-int"]),
        "nbe": st.sampled_from(["kw", "pos", "int", "omit"]),
        "pt": st.sampled_from(["float", "np64", "np32", "int"]),
        "fn": st.sampled_from(["callable", "object"]),
        "via": st.sampled_from(["call", "evaluate"]),
        "mutate": st.booleans()})


@st.composite
def _case(draw, dim, second=True):
    axes = [draw(_axis(dim)) for _ in range(dim)]
    kind = draw(st.sampled_from(["mlin", "mlin", "quad", "sin", "sin", "const"]))
    flavour = draw(_flavour())
    if flavour["kind"] == "constant":            # a raysect Constant object is handed in: the function is constant
        kind = "const"
    amp = 10.0 ** draw(st.integers(-3, 3))
    fb = draw(st.sampled_from(["none", "none", "true", "loose", "loose", "degenerate"]))
    if kind == "const":                          # equal values at all nodes
        fn = {"kind": "mlin", "co": [amp * draw(_coef())] + [0.0] * (2 ** dim - 1)}
    elif kind == "sin":
        fn = {"kind": "sin", "A": amp * draw(st.floats(0.1, 1.0)) * draw(st.sampled_from([-1.0, 1.0])),
              "off": amp * draw(st.one_of(st.just(0.0), st.floats(0.01, 2.0), st.floats(-2.0, -0.01))),
              "kw": [draw(st.floats(0.5, 2.0 * math.pi)) for _ in range(dim)],
              "ph": [draw(st.one_of(st.floats(0.0, 2.0 * math.pi), st.just(0.0))) for _ in range(dim)]}
    else:
        fn = {"kind": kind, "co": [amp * draw(_coef()) for _ in range(2 ** dim)]}
        if kind == "quad":
            fn["q"] = [amp * draw(_coef()) for _ in range(dim)]

    def build(shrink, kshrink):
        area, res = [], []
        for (ak, w, cw, n, rf) in axes:
            if ak == "int":
                lo = float(round(cw * shrink * w - 0.5 * w))
                area += [lo, lo + w]
                cand = [r for r in _INT_R if 3 <= int(w / r) <= 12]
                res.append(cand[n % len(cand)])
                continue
            c = cw * shrink * w
            area += [c - 0.5 * w, c + 0.5 * w]
            if ak == "small" and n == 0:
                res.append(w * (1.0 + max(rf, 0.05)))            # resolution larger than the width: one cell
            else:
                nn = max(n, 4) if (rf == 0.0 and ak == "float") else n
                res.append(w / (nn + rf))
        f2 = fn
        if fn["kind"] == "sin":
            f2 = dict(fn, kw=[max(0.5, v * kshrink) for v in fn["kw"]])
        return area, res, f2

    area, res, fn2 = build(1.0, 1.0)
    shrunk = False
    if EXCLUDE_ILL and fn["kind"] == "sin":
        shrink = kshrink = 1.0
        for _ in range(200):
            if kappa_of(dim, area, res, fn2) <= KAPPA_CAP:
                break
            shrunk = True
            shrink *= 0.8
            kshrink *= 0.9
            area, res, fn2 = build(shrink, kshrink)
    fn = fn2
    ncell = [n_cells(area[2 * a], area[2 * a + 1], res[a]) for a in range(dim)]

    base = [draw(st.one_of(st.integers(0, ncell[a] - 1), st.sampled_from([0, ncell[a] - 1]))) for a in range(dim)]
    off = [draw(st.sampled_from([-1, 0, 1])) for _ in range(dim)]
    if not any(off):
        off[draw(st.integers(0, dim - 1))] = draw(st.sampled_from([-1, 1]))
    nb = []
    for a in range(dim):
        v = base[a] + off[a]
        if v < 0 or v > ncell[a] - 1:
            v = base[a] - off[a]
        if v < 0 or v > ncell[a] - 1:
            v = base[a]                              # single-cell axis
        nb.append(v)

    def in_cell(cell, node=None):
        return [draw(_coord_in(ncell[a], cell[a], node)) for a in range(dim)]

    pts = [in_cell(base, False) for _ in range(draw(st.integers(2, 3)))]
    pts += [in_cell(nb, False) for _ in range(draw(st.integers(1, 2)))]
    if draw(st.booleans()):                      # node / face shared by the two cells
        hi_cell = [max(base[a], nb[a]) for a in range(dim)]
        pts.append([["c", hi_cell[a], 0.0] if nb[a] != base[a] else draw(_coord_in(ncell[a], base[a])) for a in range(dim)])
    if draw(st.booleans()):
        pts.append(in_cell(draw(st.sampled_from([base, nb])), True))
    for _ in range(draw(st.integers(0, 2))):     # anywhere, incl. on nodes, on the area limits, at 0.0 and on the grid ends
        pts.append([draw(st.one_of(_coord_in(ncell[a]), _coord_in(ncell[a]), _coord_special())) for a in range(dim)])
    for _ in range(draw(st.sampled_from([0, 1, 1, 2]))):
        p = [draw(st.one_of(_coord_in(ncell[a]), _coord_out())) for a in range(dim)]
        if all(c[0] == "c" for c in p):
            p[draw(st.integers(0, dim - 1))] = draw(_coord_out())
        pts.append(p)
    pts = list(draw(st.permutations(pts)))
    perm = list(draw(st.permutations(list(range(len(pts))))))
    alts = list(draw(st.permutations([m for m in ("none", "true", "loose", "degenerate") if m != fb])))[:2]
    case = {"dim": dim, "area": area, "res": res, "nbe": draw(st.booleans()), "fb": fb,
            "fb_x": [draw(st.sampled_from([0.0, 1.0, 10.0, 100.0])) * draw(st.floats(0.0, 1.0)) for _ in range(2)],
            "alts": alts, "forms": draw(_forms()), "flavour": flavour, "fail": draw(_fail()),
            "f": fn, "pts": pts, "perm": perm, "shrunk": shrunk}
    if not second:
        return case
    # a second cache B of the same class with different parameters, alive at the same time (interference)
    b = draw(_case(dim, second=False))
    sec = {"dim": dim, "area": b["area"], "res": b["res"], "f": b["f"], "nbe": b["nbe"], "fb": b["fb"], "fb_x": b["fb_x"],
           "pts": b["pts"][:4], "geom": "own"}
    if draw(st.sampled_from([False, False, True])):       # same grid shape as A, different function
        if not (EXCLUDE_ILL and b["f"]["kind"] == "sin" and kappa_of(dim, area, res, b["f"]) > KAPPA_CAP):
            sec.update(area=area, res=res, pts=pts[:4], geom="same")
    if draw(st.booleans()):                               # same way of construction as A (same options left to their defaults)
        sec.update(nbe=case["nbe"], fb=case["fb"], fb_x=case["fb_x"])
    case["second"] = sec
    return case


# ------------------------------------------------------------------------------------------------ run
def _coord(desc, lo, hi, g):
    k = desc[0]
    if k == "c":
        i, t = int(desc[1]), float(desc[2])
        return g[i] + t * (g[i + 1] - g[i])
    if k == "lo":
        return lo
    if k == "hi":
        return hi
    if k == "zero":
        return (0.0 if int(desc[1]) > 0 else -0.0) if lo <= 0.0 <= hi else lo
    if k == "gmin":
        return g[0]
    if k == "gmax":
        return g[-1]
    w = hi - lo
    sgn = int(desc[1])
    dist = 3e-7 if k == "near" else max(w * 10.0 ** float(desc[2]), 3e-7)
    return hi + dist if sgn > 0 else lo - dist


def _klass(x, lo, hi):
    if lo <= x <= hi:
        return "in"
    if x <= lo - 2e-7 or x >= hi + 2e-7:
        return "out"
    return "margin"


def _cell_of(x, g):
    return min(max(bisect.bisect_right(g, x) - 1, 0), len(g) - 2)


def _bits(v):
    return None if v is None else float(v).hex()


def _fb_of(case, fn, mode):
    lo, hi = fn.range
    if mode == "none":
        return None
    if mode == "true":
        return (lo, hi)
    if mode == "degenerate":                       # min == max: the constructor falls back to data_delta = 1 (a pure shift)
        return (lo, lo)
    return (lo - float(case["fb_x"][0]) * fn.absmax, hi + float(case["fb_x"][1]) * fn.absmax)


def _make(case, fn, fbmode=None, omit_defaults=False):
    """Canonical construction: tuples of Python floats, keywords (omit_defaults: options equal to their default are not passed)."""
    dim = case["dim"]
    fb = _fb_of(case, fn, case["fb"] if fbmode is None else fbmode)
    area = tuple(float(v) for v in case["area"])
    res = float(case["res"][0]) if dim == 1 else tuple(float(v) for v in case["res"])
    kw = {"no_boundary_error": bool(case["nbe"]), "function_boundaries": fb}
    if omit_defaults:
        kw = {k: v for k, v in kw.items() if not (v is None or v is False)}
    cache = CLASSES[dim](fn, area, res, **kw)
    S = fn.absmax if fb is None else max(fn.absmax, abs(fb[0]), abs(fb[1]))
    return cache, S


ARG = {1: [lambda: Arg1D()], 2: [lambda: Arg2D("x"), lambda: Arg2D("y")], 3: [lambda: Arg3D("x"), lambda: Arg3D("y"), lambda: Arg3D("z")]}
SIN = {1: Sin1D, 2: Sin2D, 3: Sin3D}
CONST = {1: Constant1D, 2: Constant2D, 3: Constant3D}


def _handed_in(flv, fn, dim, area, res):
    """Build the object handed to the cache for flavour `flv` from the analytic base function `fn` (an Fn).
    Returns (object, label, analytic) - analytic: the object is the same mathematical function as fn (curvature known);
    coarse: ratio (spacing of the object's own knots) / (outer node spacing), >= 1, enters kappa."""
    kind = flv["kind"]
    lo = [area[2 * a] for a in range(dim)]
    hi = [area[2 * a + 1] for a in range(dim)]
    if kind == "constant" and not fn.constant:
        kind = "expr"
    if kind == "constant":
        return CONST[dim](fn.co[0]), "constant", True, 1.0
    if kind == "expr":                               # raysect arithmetic expression of Arg / Sin / constants
        args = [mk() for mk in ARG[dim]]
        if fn.kind == "sin":
            e = None
            for a in range(dim):
                term = SIN[dim](fn.k[a] * (args[a] - fn.c[a]) + fn.ph[a])
                e = term if e is None else e * term
            return fn.off + fn.A * e, "expr", True, 1.0
        t = [(args[a] - fn.c[a]) * (2.0 / fn.w[a]) for a in range(dim)]
        e = CONST[dim](0.0)
        for m, cm in enumerate(fn.co):
            if cm == 0.0:
                continue
            term = None
            for a in range(dim):
                if (m >> a) & 1:
                    term = t[a] if term is None else term * t[a]
            e = e + (cm if term is None else cm * term)
        for a in range(dim):
            if fn.q[a] != 0.0:
                e = e + fn.q[a] * t[a] * t[a]
        return e, "expr", True, 1.0
    if kind == "clamp":                              # cherab wrapper, limits far outside the range of f: identity
        cls = (CM.ClampOutput1D, CM.ClampOutput2D, CM.ClampOutput3D)[dim - 1]
        return cls(fn, -4.0 * fn.absmax - 1.0, 4.0 * fn.absmax + 1.0), "cherab-clamp", True, 1.0
    if kind == "swizzle":                            # cherab wrapper that permutes the arguments of a permuted callable
        if dim == 1:
            return CM.ClampInput1D(fn, lo[0] - 2e3 * fn.w[0], hi[0] + 2e3 * fn.w[0]), "cherab-clampinput", True, 1.0
        if dim == 2:
            return CM.Swizzle2D(lambda b, a: fn(a, b)), "cherab-swizzle", True, 1.0
        return CM.Swizzle3D(lambda b, c, a: fn(a, b, c), (1, 2, 0)), "cherab-swizzle", False, 1.0
    if kind == "cache":                              # another (coarser) cache over an area that contains the sampled hull
        iarea, ires, coarse = [], [], 1.0
        for a in range(dim):
            m0, m1 = float(flv["margin"][2 * a]), float(flv["margin"][2 * a + 1])
            iarea += [lo[a] - res[a] - m0 * fn.w[a], hi[a] + res[a] + m1 * fn.w[a]]
            ires.append(res[a] * float(flv["coarse"]))
            coarse = max(coarse, float(flv["coarse"]))
        inner = CLASSES[dim](fn, tuple(iarea), ires[0] if dim == 1 else tuple(ires), no_boundary_error=bool(flv["nbe"]))
        return inner, "inner-cache", False, coarse
    # cubic interpolators over samples of f on a grid that contains the sampled hull (constant extrapolation beyond)
    n = int(flv["n"])
    axes = [np.linspace(lo[a] - 1.5 * res[a], hi[a] + 1.5 * res[a], n) for a in range(dim)]
    data = np.empty([n] * dim)
    for idx in np.ndindex(*data.shape):
        data[idx] = fn.value([float(axes[a][idx[a]]) for a in range(dim)])
    coarse = max(max((axes[a][1] - axes[a][0]) / min(res[a], (hi[a] - lo[a]) / n_cells(lo[a], hi[a], res[a])) for a in range(dim)), 1.0)
    rng = [1e6 * fn.w[a] for a in range(dim)]
    if kind == "interp-raysect":
        cls = (Interpolator1DArray, Interpolator2DArray, Interpolator3DArray)[dim - 1]
        return cls(*(axes + [data, "cubic", "nearest"] + rng)), "interp-raysect", False, coarse
    cls = (CM.Interpolate1DCubic, CM.Interpolate2DCubic, CM.Interpolate3DCubic)[dim - 1]
    return cls(*(axes + [data]), extrapolate=True, extrapolation_type="nearest", extrapolation_range=max(rng)), "interp-cherab", False, coarse


class Boom(Exception):
    pass


EXC = {"RuntimeError": RuntimeError, "ZeroDivisionError": ZeroDivisionError, "KeyError": KeyError, "Boom": Boom}


class FailFn:
    """Wraps an Fn; raises `exc` on the k-th call (mode kth) or on calls with the arguments `node` (mode node), `times` times in all."""

    def __init__(self, fn, exc, times, k=None, node=None):
        self.fn, self.exc, self.left, self.k, self.node = fn, exc, times, k, node
        self.range, self.absmax = fn.range, fn.absmax
        self.n = 0
        self.raised = 0

    def __call__(self, *p):
        self.n += 1
        p = tuple(float(v) for v in p)
        if self.left > 0 and ((self.k is not None and self.n >= self.k) or (self.node is not None and p == self.node)):
            self.left -= 1
            self.raised += 1
            raise self.exc("wrapped function failed at %r (call %d)" % (p, self.n))
        return self.fn.value(p)


def build_flavour(case, spec, dim, area, res, flv, ctx):
    fn = Fn(spec, dim, area, res)
    with ctx.cut("flavour/handed-in"):
        H, lab, analytic, coarse = _handed_in(flv, fn, dim, area, res)
    fb = _fb_of(case, fn, case["fb"])
    with ctx.cut("flavour/constructor"):
        O = CLASSES[dim](H, tuple(float(v) for v in area), float(res[0]) if dim == 1 else tuple(float(v) for v in res),
                         no_boundary_error=bool(case["nbe"]), function_boundaries=fb)
    S = fn.absmax if fb is None else max(fn.absmax, abs(fb[0]), abs(fb[1]))
    return fn, H, O, S, lab, analytic, coarse


def _num(v, form):
    """The double v as another numeric type - only where that type holds exactly the same value."""
    v = float(v)
    if form in ("int", "npint", "list-int", "ndint") and v == int(v) and abs(v) < 2 ** 53:
        return int(v) if form in ("int", "list-int") else np.int64(int(v))
    if form in ("np32", "nd32") and float(np.float32(v)) == v:
        return np.float32(v)
    if form in ("np64", "np32", "npint", "nd64", "nd32", "ndint"):
        return np.float64(v)
    return v


def _make_forms(case, fn, forms, labels):
    """Same configuration through other accepted input forms. Returns (cache, fb_object, fb_copy)."""
    dim = case["dim"]
    fbv = _fb_of(case, fn, case["fb"])
    area = tuple(_num(v, forms["area"]) for v in case["area"])
    if any(type(v) is not float for v in area):
        labels.append("form:area-" + ("int" if any(isinstance(v, (int, np.integer)) for v in area) else "numpy"))
    r = [_num(v, forms["res"]) for v in case["res"]]
    if any(type(v) is not float for v in r):
        labels.append("form:res-" + ("int" if any(isinstance(v, (int, np.integer)) for v in r) else "numpy"))
    res = r[0] if dim == 1 else tuple(r)
    fb = fbv
    if fbv is not None:
        f = forms["fb"]
        if f in ("list", "list-int"):
            fb = [_num(v, f) for v in fbv]
            labels.append("form:fb-list")
        elif f in ("nd64", "nd32", "ndint"):
            vals = [_num(v, f) for v in fbv]
            dt = np.float64
            if all(isinstance(v, np.integer) for v in vals):
                dt = np.int64
            elif all(isinstance(v, (np.float32, np.integer)) and float(np.float32(v)) == float(v) for v in vals):
                dt = np.float32
            fb = np.array([float(v) for v in vals], dtype=dt)
            labels.append("form:fb-ndarray")
    func = fn
    if forms["fn"] == "object":                     # a raysect Function object instead of a bare callable (autowrap passes it through)
        func = PYFUNC[dim](fn)
        labels.append("form:fn-object")
    nbe = bool(case["nbe"])
    cls = CLASSES[dim]
    how = forms["nbe"]
    if how == "omit" and not nbe and fb is None:
        cache = cls(func, area, res)                # documented defaults apply
        labels.append("form:defaults-omitted")
    elif how == "omit" and not nbe:
        cache = cls(func, area, res, function_boundaries=fb)
        labels.append("form:nbe-omitted")
    elif how == "pos":
        cache = cls(func, area, res, nbe, fb)
        labels.append("form:positional")
    elif how == "int":
        cache = cls(func, area, res, int(nbe), fb)
        labels.append("form:nbe-int")
    else:
        cache = cls(function_boundaries=fb, no_boundary_error=nbe, resolution=res, space_area=area, **{"function%dd" % dim: func})
        labels.append("form:all-keywords")
    return cache, fb


def run(case, ctx):
    dim = int(case["dim"])
    area = [float(v) for v in case["area"]]
    res = [float(v) for v in case["res"]]
    spec = case["f"]
    nbe = bool(case["nbe"])
    grids = [grid(area[2 * a], area[2 * a + 1], res[a]) for a in range(dim)]
    ncell = [len(g) - 1 for g in grids]
    h = [(grids[a][-1] - grids[a][0]) / ncell[a] for a in range(dim)]
    pts = [tuple(_coord(p[a], area[2 * a], area[2 * a + 1], grids[a]) for a in range(dim)) for p in case["pts"]]
    perm = [int(i) for i in case["perm"]]

    def klass(p):
        ks = [_klass(p[a], area[2 * a], area[2 * a + 1]) for a in range(dim)]
        return "out" if "out" in ks else ("margin" if "margin" in ks else "in")

    kl = [klass(p) for p in pts]
    cells = [tuple(_cell_of(p[a], grids[a]) for a in range(dim)) if k != "out" else None for p, k in zip(pts, kl)]

    def new(fbmode=None):
        fn = Fn(spec, dim, area, res)
        with ctx.cut("constructor"):
            cache, S = _make(case, fn, fbmode)
        return fn, cache, S

    def ev(cache, p, what):
        try:
            with ctx.cut(what, allowed=(ValueError,)):
                return float(cache(*p))
        except ValueError:
            return None

    fnA, A, S = new()
    kappa = kappa_of(dim, area, res, spec)
    tol = min(FP_BASE * kappa, FP_CAP) * S
    h_eff = [max(h[a], res[a]) for a in range(dim)]           # 1- and 2-cell axes: the outer stencil step (res) can exceed h
    curv_bound = C_APPROX * sum(h_eff[a] ** 2 * fnA.curv[a] for a in range(dim))
    width = [area[2 * a + 1] - area[2 * a] for a in range(dim)]
    divides = [abs(res[a] * round(width[a] / res[a]) - width[a]) <= 1e-12 * width[a] for a in range(dim)]

    ctx.label("fam:%s" % fnA.kind, "fb:%s" % case["fb"], "nbe:%d" % nbe,
              "kappa:1e%02d" % int(math.floor(math.log10(kappa))),
              "cw<=%s" % (next(b for b in (0.5, 1, 3, 10, 99) if max(
                  abs(0.5 * (area[2 * a] + area[2 * a + 1])) / (area[2 * a + 1] - area[2 * a]) for a in range(dim)) <= b * 1.0000001)))
    if any(divides):
        ctx.label("res:divides")
    for a in range(dim):
        ctx.label("cells:%s" % ("1" if ncell[a] == 1 else "2" if ncell[a] == 2 else "3-12" if ncell[a] <= 12 else "large"))
    if ncell and max(ncell) == LARGE.get(dim, 12):
        ctx.label("cells:max")
    if all(float(v) == int(v) for v in area):
        ctx.label("geom:int")
    if dim > 1 and max(width) >= 100.0 * min(width) and len(set(ncell)) > 1:
        ctx.label("aniso")
    if case["fb"] == "degenerate" and not fnA.constant:
        ctx.label("fb:degenerate-nonconst")
    if fnA.constant:
        ctx.label("fam:const")
    cross = fnA.kind == "mlin" and any(cm != 0.0 and bin(m).count("1") >= 2 for m, cm in enumerate(fnA.co))
    if kappa * FP_BASE > FP_CAP:
        ctx.label("tol-capped")
    if case.get("shrunk"):
        ctx.label("excluded_known")       # drawn with kappa > 1e7; centre and wavenumbers were scaled down (open finding)

    # ---- order A: values, inside/outside behaviour, approximation
    vA = []
    for i, p in enumerate(pts):
        ncalls = len(fnA.calls)
        v = ev(A, p, "evaluate")
        vA.append(v)
        info = "p=%r cell=%r class=%s" % (p, cells[i], kl[i])
        if kl[i] == "in":
            ctx.check(v is not None, "inside/raised", lambda: "ValueError inside the caching area: " + info)
        if kl[i] == "out":
            ctx.label("pt:outside")
            if nbe:
                ctx.label("out:passthrough")
                want = fnA.value(p)
                ctx.check(v is not None and _bits(v) == _bits(want), "outside/passthrough",
                          lambda: "no_boundary_error=True: got %r, f(p)=%r; %s" % (v, want, info))
                ctx.check(tuple(p) in fnA.calls[ncalls:], "outside/passthrough-call",
                          lambda: "wrapped function was not evaluated at p itself: calls %r; %s" % (fnA.calls[ncalls:], info))
            else:
                ctx.label("out:raised")
                ctx.check(v is None, "outside/raise", lambda: "no ValueError outside the area, got %r; %s" % (v, info))
            continue
        if v is None:
            ctx.label("pt:margin-raised")
            continue                              # margin point treated as outside
        ctx.check(math.isfinite(v), "finite", lambda: "value %r; %s" % (v, info))
        want = fnA.value(p)
        err = abs(v - want)
        if fnA.kind == "sin" or (fnA.kind == "quad" and curv_bound > 0.0):
            ctx.check(err <= curv_bound + tol, "approx",
                      lambda: "|cache-f|=%.6g > %.3g*sum h^2 max|f''| = %.6g (+fp %.3g); cache=%r f=%r h=%r curv=%r kappa=%.3g; %s"
                      % (err, C_APPROX, curv_bound, tol, v, want, h, fnA.curv, kappa, info))
            if curv_bound > 100 * tol:
                r = err / curv_bound
                ctx.label("approx-ratio:%s" % (">0.1" if r > 0.1 else (">0.01" if r > 0.01 else "<=0.01")))
        else:
            ctx.check(err <= tol, "multilinear",
                      lambda: "|cache-f|=%.6g > fp tol %.3g for a function linear in each coordinate; cache=%r f=%r kappa=%.3g S=%.3g; %s"
                      % (err, tol, v, want, kappa, S, info))
        desc = case["pts"][i]
        if any(d[0] == "c" and float(d[2]) == 0.0 for d in desc):
            ctx.label("pt:on-node")
        if any(d[0] in ("lo", "hi") for d in desc):
            ctx.label("pt:on-limit")
        if any(d[0] == "zero" and p[a] == 0.0 for a, d in enumerate(desc)):
            ctx.label("pt:zero")
        if any(d[0] in ("gmin", "gmax") for d in desc):
            ctx.label("pt:grid-end")
        strictly = all(d[0] == "c" and 0.0 < float(d[2]) < 1.0 for d in desc)
        if cross and strictly:
            ctx.label("mlin:cross-inside")
        if strictly and any(not divides[a] and ncell[a] >= 3 and cells[i][a] in (0, ncell[a] - 1) for a in range(dim)):
            ctx.label("edge-cell:nondiv")

    nodes_snapshot = list(fnA.calls)

    # ---- revisit on the same cache: cached coefficients give the same bits
    for i, p in enumerate(pts):
        v = ev(A, p, "evaluate")
        ctx.check(_bits(v) == _bits(vA[i]), "history/revisit",
                  lambda: "second evaluation on the same cache differs: %r then %r at p=%r" % (vA[i], v, p))

    # ---- order B on a fresh cache
    fnB, B, _ = new()
    vB = {}
    for i in perm:
        vB[i] = ev(B, pts[i], "evaluate")
    for i, p in enumerate(pts):
        ctx.check(_bits(vB[i]) == _bits(vA[i]), "history/order",
                  lambda: "value depends on the evaluation order: %r (order %r) vs %r (order %r) at point #%d p=%r cell=%r"
                  % (vA[i], list(range(len(pts))), vB[i], perm, i, p, cells[i]))

    # ---- each point alone on a fresh cache
    for i, p in enumerate(pts):
        if kl[i] == "out":
            continue
        _, Cp, _ = new()
        v = ev(Cp, p, "evaluate")
        ctx.check(_bits(v) == _bits(vA[i]), "history/single",
                  lambda: "value depends on earlier evaluations: alone %r, as #%d of the list %r; p=%r cell=%r" % (v, i, vA[i], p, cells[i]))

    # ---- sampling nodes = recorded call arguments (pass-through calls excluded)
    passed = set(p for p, k in zip(pts, kl) if k == "out")
    nodes = sorted(set(nd for nd in nodes_snapshot if nd not in passed))
    judged = [nd for nd in nodes if klass(nd) != "out"]
    if len(judged) > MAX_NODES:
        step = len(judged) / float(MAX_NODES)
        judged = [judged[int(j * step)] for j in range(MAX_NODES)]
    for nd in judged:
        v = ev(A, nd, "evaluate")
        if v is None:
            ctx.check(klass(nd) != "in", "inside/raised", lambda: "ValueError at sampling node %r inside the area" % (nd,))
            continue
        want = fnA.value(nd)
        ctx.check(abs(v - want) <= tol, "node",
                  lambda: "cache(node)=%r but f(node)=%r: |diff|=%.6g > fp tol %.3g (kappa=%.3g, S=%.3g) at sampling node %r"
                  % (v, want, abs(v - want), tol, kappa, S, nd))

    # ---- function_boundaries only rescale internally
    others = case.get("alts") or [m for m in ("none", "true", "loose") if m != case["fb"]]
    for m in others:
        ctx.label("alt:%s" % m)
        fnM, CM, SM = new(m)
        tolM = min(FP_BASE * kappa, FP_CAP) * SM
        for i, p in enumerate(pts):
            v = ev(CM, p, "evaluate")
            if kl[i] == "out" or v is None or vA[i] is None:
                ctx.check((v is None) == (vA[i] is None), "bounds/outcome",
                          lambda: "function_boundaries %s -> %r, %s -> %r at p=%r" % (case["fb"], vA[i], m, v, p))
                continue
            ctx.check(abs(v - vA[i]) <= tol + tolM, "bounds",
                      lambda: "function_boundaries=%s gives %r, %s gives %r: |diff|=%.6g > %.3g (kappa=%.3g, S=%.3g/%.3g) at p=%r"
                      % (case["fb"], vA[i], m, v, abs(v - vA[i]), tol + tolM, kappa, S, SM, p))

    # ---- other accepted input forms of the same configuration, caller-owned bounds, C-level entry point
    forms = case.get("forms")
    if forms:
        labels = []
        fnF = Fn(spec, dim, area, res)
        with ctx.cut("forms/constructor"):
            F, fbobj = _make_forms(case, fnF, forms, labels)
        if isinstance(fbobj, (list, np.ndarray)):
            want_fb = _fb_of(case, fnF, case["fb"])
            ctx.check([float(v) for v in fbobj] == [float(v) for v in want_fb], "caller-data/modified",
                      lambda: "the constructor changed the caller's function_boundaries %r -> %r" % (want_fb, list(fbobj)))
            if forms.get("mutate"):
                fbobj[0], fbobj[1] = 12345, -7       # the caller re-uses its container: the cache must not see this
                labels.append("caller:fb-mutated-after")
        G = F
        if forms.get("via") == "evaluate":
            G = F * 1.0                              # raysect MultiplyScalar: calls F.evaluate() at C level; x * 1.0 is exact
            labels.append("form:via-evaluate")
        pform = forms.get("pt", "float")
        for i, p in enumerate(pts):
            q = tuple(_num(v, pform) for v in p)
            if any(type(v) is not float for v in q):
                labels.append("form:pt-" + ("int" if any(isinstance(v, (int, np.integer)) for v in q) else "numpy"))
            v = ev(G, q, "forms/evaluate")
            ctx.check(_bits(v) == _bits(vA[i]), "forms/value",
                      lambda: "forms %r: %r, canonical float/tuple/keyword form: %r at p=%r (passed as %r)" % (forms, v, vA[i], p, q))
        ctx.label(*sorted(set(labels)))

    # ---- any wrapped function: the oracle is the object that was handed in, evaluated directly
    flv = case.get("flavour")
    if flv:
        def evH(H_, p):
            try:
                return float(H_(*p))
            except ValueError:                       # an inner cache without pass-through, asked outside its own area
                return None

        fnH, H, O, SH, flab, analytic, coarse = build_flavour(case, spec, dim, area, res, flv, ctx)
        ctx.label("wrapped:%s" % flab)
        kap3 = 1.0
        for a in range(dim):
            X = max(abs(area[2 * a] - res[a]), abs(area[2 * a + 1] + res[a]), width[a] + 2 * res[a])
            K = (fnH.k[a] if fnH.kind == "sin" else 2.0 / width[a]) * coarse ** (1.0 / 3.0)
            kap3 *= (1.0 + K * X) ** 3
        kapH = kappa if analytic else kap3
        tolH = min(FP_BASE * kapH, FP_CAP) * 2.5 * SH
        vO = []
        for i, p in enumerate(pts):
            v = ev(O, p, "flavour/evaluate")
            vO.append(v)
            want = evH(H, p)
            info = "wrapped=%s p=%r class=%s" % (flab, p, kl[i])
            if kl[i] == "out":
                if nbe:
                    ctx.check(_bits(v) == _bits(want), "flavour/passthrough",
                              lambda: "outside the area the cache returns %r, the object that was handed in gives %r; %s" % (v, want, info))
                else:
                    ctx.check(v is None, "flavour/outside-raise", lambda: "no ValueError outside the area, got %r; %s" % (v, info))
                continue
            if kl[i] == "in":
                ctx.check(v is not None, "flavour/inside-raised", lambda: "ValueError inside the caching area; " + info)
            if v is None or want is None:
                continue
            if analytic:
                bound = (curv_bound if (fnH.kind == "sin" or (fnH.kind == "quad" and curv_bound > 0.0)) else 0.0) + tolH
                ctx.check(abs(v - want) <= bound, "flavour/approx",
                          lambda: "|cache - handed-in| = %.6g > %.6g (h^2 curvature %.3g + fp %.3g); cache=%r handed-in=%r; %s"
                          % (abs(v - want), bound, curv_bound, tolH, v, want, info))
        # sampling nodes: corners of the visited cells
        nds = []
        for i, p in enumerate(pts):
            if kl[i] == "out" or vO[i] is None:
                continue
            for up in (0, 1):
                nd = tuple(grids[a][min(cells[i][a] + up, ncell[a])] for a in range(dim))
                if klass(nd) == "in" and nd not in nds:
                    nds.append(nd)
        for nd in nds[:MAX_NODES]:
            v = ev(O, nd, "flavour/evaluate")
            want = evH(H, nd)
            ctx.check(v is not None and want is not None and abs(v - want) <= tolH, "flavour/node",
                      lambda: "cache(node)=%r, the object that was handed in gives %r at the sampling node %r (fp tol %.3g, kappa %.3g); wrapped=%s"
                      % (v, want, nd, tolH, kapH, flab))
        if nds:
            ctx.label("wrapped-node:%s" % flab)
        # history independence with this kind of wrapped object
        _, _, O2, _, _, _, _ = build_flavour(case, spec, dim, area, res, flv, ctx)
        for i in perm:
            v = ev(O2, pts[i], "flavour/evaluate")
            ctx.check(_bits(v) == _bits(vO[i]), "flavour/history",
                      lambda: "wrapped=%s: %r in list order, %r in order %r at p=%r" % (flab, vO[i], v, perm, pts[i]))

    # ---- a wrapped function that raises: the exception propagates, and nothing of the failed evaluation is left behind
    fl = case.get("fail")
    if fl:
        exc = EXC[fl["exc"]]
        inner_pts = [i for i in range(len(pts)) if kl[i] != "out"]
        k = node = None
        if fl["mode"] == "kth" or not inner_pts:
            k = 1 + int(float(fl["kfrac"]) * 4 ** dim)
            ctx.label("raise:kth")
        else:
            j = inner_pts[int(fl["pt"]) % len(inner_pts)]
            nd, guard = [], False
            for a in range(dim):
                ext = [area[2 * a] - res[a]] + grids[a] + [area[2 * a + 1] + res[a]]
                idx = min(max(cells[j][a] + 1 + int(fl["off"][a]), 0), len(ext) - 1)
                guard = guard or idx in (0, len(ext) - 1)
                nd.append(ext[idx])
            node = tuple(nd)
            ctx.label("raise:guard-node" if guard else "raise:node")
        ff = FailFn(Fn(spec, dim, area, res), exc, int(fl["times"]), k, node)
        with ctx.cut("raising/constructor"):
            R, _ = _make(case, ff)
        for rnd in (0, 1):
            for i, p in enumerate(pts):
                for attempt in range(4):
                    before = ff.raised
                    try:
                        v = R(*p)
                    except ValueError:
                        v = None
                    except Exception as e:  # noqa
                        ctx.check(type(e) is exc and ff.raised == before + 1, "raising/propagate",
                                  lambda: "wrapped function raised %s, evaluate() raised %s: %s" % (exc.__name__, type(e).__name__, e))
                        ctx.label("raise:propagated")
                        if attempt:
                            ctx.label("raise:twice")
                        continue
                    ctx.check(ff.raised == before, "raising/swallowed",
                              lambda: "the wrapped function raised %s during evaluate(%r) but the cache returned %r" % (exc.__name__, p, v))
                    ctx.check(_bits(v) == _bits(vA[i]), "raising/later-value",
                              lambda: "after %d failed evaluation(s) of the wrapped function (%s at %s) the cache returns %r at p=%r; "
                              "a fresh cache over the never-failing function returns %r" % (ff.raised, exc.__name__, node if node else "call %d" % k, v, p, vA[i]))
                    break
                else:
                    ctx.fail("raising/retry", "evaluate(%r) still raises after the wrapped function stopped failing" % (p,))
        if ff.raised:
            ctx.label("raise:retry-ok")
        else:
            ctx.label("raise:never-reached")

    # ---- interference: a second cache B (other function / area / resolution) alive and used between A's evaluations; repeats
    sec = case.get("second")
    if sec:
        sarea = [float(v) for v in sec["area"]]
        sres = [float(v) for v in sec["res"]]
        sgrids = [grid(sarea[2 * a], sarea[2 * a + 1], sres[a]) for a in range(dim)]
        spts = [tuple(_coord(q[a], sarea[2 * a], sarea[2 * a + 1], sgrids[a]) for a in range(dim)) for q in sec["pts"]]

        def new_pair(which):
            f_ = Fn(case["f"] if which == "A" else sec["f"], dim, area if which == "A" else sarea, res if which == "A" else sres)
            with ctx.cut("interference/constructor"):
                c_, S_ = _make(case if which == "A" else sec, f_, omit_defaults=True)
            return f_, c_, S_

        # reference for B: evaluated without interleaving, judged against its own function
        fnR, BR, SB = new_pair("B")
        kB = kappa_of(dim, sarea, sres, sec["f"])
        tolB = min(FP_BASE * kB, FP_CAP) * SB
        nB = [len(g) - 1 for g in sgrids]
        hB = [max((sgrids[a][-1] - sgrids[a][0]) / nB[a], sres[a]) for a in range(dim)]
        boundB = C_APPROX * sum(hB[a] ** 2 * fnR.curv[a] for a in range(dim)) + tolB
        vR = []
        for q in spts:
            v = ev(BR, q, "interference/evaluate")
            vR.append(v)
            inside = all(sarea[2 * a] <= q[a] <= sarea[2 * a + 1] for a in range(dim))
            if inside:
                ctx.check(v is not None and abs(v - fnR.value(q)) <= boundB, "interference/second-value",
                          lambda: "second cache (built while the first is alive): %r, f_B=%r, bound %.3g at q=%r" % (v, fnR.value(q), boundB, q))
        # A first, then B built and used between A's evaluations; every A value thrice: twice in a row and again after B was used
        fn2, A2, _ = new_pair("A")
        v0 = ev(A2, pts[0], "interference/evaluate")
        ctx.check(_bits(v0) == _bits(vA[0]), "interference/A-first", lambda: "first value %r, reference %r at p=%r" % (v0, vA[0], pts[0]))
        fnB, B2, _ = new_pair("B")
        for i, p in enumerate(pts):
            v1 = ev(A2, p, "interference/evaluate")
            v2 = ev(A2, p, "interference/evaluate")
            ctx.check(_bits(v1) == _bits(vA[i]) and _bits(v2) == _bits(vA[i]), "repeat/in-a-row",
                      lambda: "A(p) = %r, again %r, reference (A alone) %r at p=%r after B was used %d times" % (v1, v2, vA[i], p, i))
            if spts:
                j = i % len(spts)
                w = ev(B2, spts[j], "interference/evaluate")
                ctx.check(_bits(w) == _bits(vR[j]), "interference/B-value",
                          lambda: "B interleaved with A gives %r, B on its own %r at q=%r" % (w, vR[j], spts[j]))
            v3 = ev(A2, p, "interference/evaluate")
            ctx.check(_bits(v3) == _bits(vA[i]), "interference/A-after-B",
                      lambda: "A(p) = %r before and %r after another cache was evaluated (reference %r) at p=%r; B: area %r res %r"
                      % (v1, v3, vA[i], p, sarea, sres))
        ctx.label("interference:A-first", "repeat:in-a-row", "repeat:after-other", "second:geom-%s" % sec.get("geom", "own"))
        if not case["nbe"] and case["fb"] == "none" and not sec["nbe"] and sec["fb"] == "none":
            ctx.label("interference:both-defaults")
        if sec["f"]["kind"] != case["f"]["kind"]:
            ctx.label("second:other-family")
        # other order: A built, B built and used, then A used for the first time
        fn3, A3, _ = new_pair("A")
        fnB3, B3, _ = new_pair("B")
        for j, q in enumerate(spts):
            w = ev(B3, q, "interference/evaluate")
            ctx.check(_bits(w) == _bits(vR[j]), "interference/B-value", lambda: "B gives %r, reference %r at q=%r" % (w, vR[j], q))
        for i, p in enumerate(pts):
            v = ev(A3, p, "interference/evaluate")
            ctx.check(_bits(v) == _bits(vA[i]), "interference/B-first",
                      lambda: "A used for the first time after B: %r, reference (A alone) %r at p=%r" % (v, vA[i], p))
        ctx.label("interference:B-first")
        # same cache: p, a sibling point (same leading coordinates, last coordinate from another point), p again
        others_ = [j for j in range(len(pts)) if kl[j] != "out" and pts[j][-1] != pts[0][-1]]
        if kl[0] != "out" and others_:
            sib = tuple(pts[0][:-1]) + (pts[others_[0]][-1],)
            _, Cs, _ = new()
            ref = ev(Cs, sib, "evaluate")
            va = ev(A3, pts[0], "evaluate")
            vs = ev(A3, sib, "evaluate")
            vb = ev(A3, pts[0], "evaluate")
            ctx.check(_bits(vs) == _bits(ref), "repeat/sibling",
                      lambda: "sibling point %r right after %r: %r, on a fresh cache %r" % (sib, pts[0], vs, ref))
            ctx.check(_bits(va) == _bits(vA[0]) and _bits(vb) == _bits(vA[0]), "repeat/after-sibling",
                      lambda: "A(p) = %r, then elsewhere, then %r (reference %r) at p=%r" % (va, vb, vA[0], pts[0]))
            ctx.label("repeat:sibling")

    # ---- non-triviality
    seqA = [cells[i] for i in range(len(pts)) if vA[i] is not None and kl[i] != "out"]
    seqB = [cells[i] for i in perm if vA[i] is not None and kl[i] != "out"]
    distinct = set(seqA)
    shared = len(seqA) - len(distinct) >= 1
    adjacent = any(c1 != c2 and all(abs(c1[a] - c2[a]) <= 1 for a in range(dim)) for c1 in distinct for c2 in distinct)
    ctx.nt(shared and adjacent and seqA != seqB)


def _given(dim, quick, thorough):
    return Given(lambda: _case(dim), run, quick=quick, thorough=thorough,
                 doc="Caching%dD: history independence, nodes, multilinear exactness, approximation, outside, function_boundaries" % dim)


SUBCHECKS = {
    "d1": _given(1, 1000, 32000),
    "d2": _given(2, 900, 28000),
    "d3": _given(3, 400, 12000),
}
