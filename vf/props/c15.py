"""C15 - observer groups broadcast settings faithfully and keep their members consistent (history property).

One state machine, parameterised by the group class.  The reference model is a list of per-member attribute
dicts; after every operation every member attribute, every group getter, the member list, the scene-graph
parents and the observe() counters are compared with the model.
"""
import inspect
import math
import os

os.environ.setdefault("MPLBACKEND", "Agg")      # spectroscopic.py imports matplotlib.pyplot

import numpy as np
from hypothesis import strategies as st

from ..core import Machine, Enum
from ..findings import is_open

from raysect.core import Node, Point3D, Vector3D, translate  # noqa: E402
from raysect.core.workflow import RenderEngine, SerialEngine, MulticoreEngine  # noqa: E402
from raysect.optical import World  # noqa: E402
from raysect.optical.observer import (SightLine, FibreOptic, Pixel, TargettedPixel, PowerPipeline0D,  # noqa: E402
                                      RadiancePipeline0D, SpectralPowerPipeline0D, SpectralRadiancePipeline0D)
from raysect.primitive import Sphere  # noqa: E402
from cherab.tools.observers import (SightLineGroup, FibreOpticGroup, PixelGroup, TargettedPixelGroup,  # noqa: E402
                                    SpectroscopicSightLineGroup, SpectroscopicFibreOpticGroup, BolometerCamera,
                                    BolometerFoil, BolometerSlit, BolometerIRVB, SpectroscopicSightLine,
                                    SpectroscopicFibreOptic)

ID = "C15"
SHARDS = {"quick": 8, "thorough": 16}

# ---- known findings: ONE switch per class.  While an entry is open the (class, attribute) pairs it names are excluded
# *in the generator* (params["excluded"]); the model itself never looks at the findings file, so the committed probe
# replay (which carries "excluded": []) keeps failing until /repo is fixed.
# VERIF_C15_NO_EXCLUSIONS=1 switches every exclusion off (used to validate the proposed patch on a scratch copy).
_NOEXCL = os.environ.get("VERIF_C15_NO_EXCLUSIONS", "") == "1"
F_SENS = "C15-specsightline-sensitivity-setter"   # `@sensitivity.setter def names`: sensitivity read-only, names clobbered
F_IRVB = "C15-camera-observe-irvb"                # BolometerCamera.observe() raises for a BolometerIRVB member
# entries "member:<kind>" exclude a member kind, anything else a broadcast attribute
EXCLUSIONS = {F_SENS: {"SpectroscopicSightLineGroup": ["names", "sensitivity"]},
              F_IRVB: {"BolometerCamera": ["member:irvb"]}}


def _open(fid):
    return (not _NOEXCL) and is_open(fid)


def excluded_for(gname):
    out = []
    for fid, table in EXCLUSIONS.items():
        if _open(fid):
            out.extend(table.get(gname, []))
    return sorted(set(out))


RULE = ("Hypothesis RuleBasedStateMachine (20/30 steps) parameterised by the group class (7 classes), 0-4 initial members and "
        "the constructor form (keyword/positional, with/without parent and transform, `observers=` as list or tuple - the "
        "caller edits its list afterwards); members are Python subclasses of the real observer classes whose observe() only "
        "counts calls (BolometerIRVB: counts and really observes 2 pixels x 1 sample). Rules: add a member of an accepted type "
        "(incl. accepted subclasses and, for the camera, foils behind 1-3 shared slits and BolometerIRVB; add_observer / "
        "add_sight_line / add_foil_detector, positional or keyword, sizes 0-5); offer an object of every other observer kind "
        "or a non-observer through add_* and through the constructor of a second group; assign a group attribute as scalar "
        "(Python value, numpy scalar, Python int for a float attribute), list, tuple or ndarray (float64/float32/int64/int32/"
        "bool/int8, contiguous or strided view; ndarray only for numeric or bool attributes whose setter source names it), "
        "the same container possibly handed over twice; element values are by class: constructor default / internal preset, "
        "boundary of the accepted range (rays = bins, min = nextafter(max), 0, 1, 90 deg), the member's current value, or a "
        "random valid value that differs from the member's current value of this AND of every other attribute of the same "
        "storage type; assign a sequence of length 0 / n-1 / n+1; every passed container must be unchanged by the call and "
        "is then edited by the caller; rename a member; replace the member list through observers / sight_lines / "
        "foil_detectors as list or tuple (permutation, subset, new member, or holding a wrong type) - the caller's list is "
        "edited afterwards; connect_pipelines (both signatures, positional/keyword/default); index by int / out-of-range / "
        "slice / name (unique, missing, duplicated) and iteration; observe(); re-read of every getter with the returned "
        "lists edited by the caller. The attribute list of a class is the union of its `property` objects found by "
        "introspection and the documented list. After EVERY rule all attributes of all members, all group getters, the "
        "member tuple, parents, slits and counters are read back and compared with the model. finish() adds a "
        "deterministic sweep: each attribute through the scalar and the sequence branch of its setter plus one wrong length, "
        "each rejected kind once, and list-assignment of the members + caller edit + add + broadcast + observe + iteration. "
        "Interference: a `switch` rule directs the following rules to a SECOND group of the same class, built with the "
        "same constructor form (incl. `cls()` with every argument left to its default) and its own generated members "
        "(members are built with omitted arguments where a default is meant); the invariant checks BOTH groups against their "
        "models after every rule, that they share no member, that no pipeline object is connected to two members, and that "
        "lists returned by the getters of a group before it was left are unchanged when it is used again; finish() always "
        "adds: second group used (add, connect_pipelines with defaults, broadcasts, rename, observe), first group re-checked "
        "and used again, the same calls twice in a row. "
        "Held values: a scalar is, with probability 3/8, the value currently held by the first / last / a middle member of a "
        "group in which not all members hold it (after per-member sequences, added default-built members, or the `edit` rule "
        "= direct member.attr = v); a sequence is, with probability 1/4, the members' current values except one element; "
        "finish() does this for every attribute (first member's value; last member edited directly, then its value). "
        "Sub-check `large` (enumerated, deterministic): every group class with 255, 256, 257, 300 and 1000 cheap default-built "
        "members (constructor list / tuple, add loop, member-list setter; BolometerCamera 257 and 1000 foils): int / name / "
        "slice lookup and iteration at large indices, observe(), and for every broadcast attribute list / tuple / ndarray of "
        "exactly the group length (read back member by member), length n-1 and n+1 (ValueError, nothing changed) and a "
        "scalar; every such case counts as non-trivial. "
        "Falsy-but-valid values: '' as a name (k in 0,1; also looked up by name), 0 / 0.0 for probabilities and depths, False "
        "flags occur in the random rules; finish() additionally, for each such attribute, makes the members truthy, assigns a "
        "sequence whose first element is the falsy value, makes them truthy again and assigns the falsy value as scalar (names: "
        "lookup by the old name must fail, group[''] must return the un-named member). "
        "Non-trivial: a history in which a sequence with at least two different values was assigned element-wise to a "
        "group of size >= 2 and read back, and at least one wrong-length assignment was attempted after a successful "
        "assignment; for BolometerCamera (no broadcast attributes): size >= 2 at an observe(), a by-name lookup and a "
        "rejected wrong type.")
ASSUMPTIONS = [
    "member-level semantics are trusted: raysect observer setters store the value they are given; "
    "SpectroscopicSightLine/FibreOptic.origin/.direction rebuild the transform (direction is normalised), "
    ".display_progress/.accumulate read/write the flag of each connected pipeline that has it (None otherwise)",
    "a member belongs to one group only (moving a member between groups is not generated)",
    "`names` and `pipelines` have no scalar form (documented in Observer0DGroup); the scalar form of `targets` is one "
    "list of primitives, the sequence form a list of lists",
    "directions parallel to the z axis other than exactly (0,0,1) are not generated (the member setter cannot build a "
    "basis for them - a member-level limitation outside this property)",
    "BolometerCamera documents lookup by int and name only: slices are not demanded of it; for a duplicated name it "
    "must return one of the members carrying it, the Observer0DGroup family must raise ValueError",
    "rejection of a wrong type may be ValueError (Observer0DGroup) or TypeError (BolometerCamera)",
    "connect_pipelines is checked against its docstring (one new pipeline object per class and member, names, "
    "display_progress suppressed, spectroscopic variant non-accumulating); the new pipeline objects are taken from the members",
    "float32 / integer inputs: the member must hold exactly the float64 image of the element handed over",
]
TOLERANCES = {
    "numbers, flags, names": "exact equality (the value is stored, not computed)",
    "objects (render engines, pipelines, targets, members)": "identity",
    "origin / direction": "abs 1e-9 per component: |components| <= 5, the transform is rebuilt from translate*rotate_basis "
                          "at each assignment (a few ulp), <= 30 assignments per history",
}

_BASE = ["names", "render_engine", "spectral_bins", "spectral_rays", "max_wavelength", "min_wavelength",
         "ray_extinction_prob", "ray_max_depth", "ray_extinction_min_depth", "ray_importance_sampling",
         "ray_important_path_weight", "quiet", "pixel_samples", "samples_per_task", "pipelines"]
_SPEC = ["origin", "direction", "display_progress", "accumulate"]
# documented group-level attributes (class docstrings + Observer0DGroup docstring); used for REQUIRED_LABELS and as
# the lower bound of the introspected attribute list
DOCUMENTED = {
    "SightLineGroup": _BASE + ["sensitivity"],
    "FibreOpticGroup": _BASE + ["acceptance_angle", "radius"],
    "PixelGroup": _BASE + ["x_width", "y_width"],
    "TargettedPixelGroup": _BASE + ["x_width", "y_width", "targets", "targetted_path_prob"],
    "SpectroscopicSightLineGroup": _BASE + _SPEC + ["sensitivity"],
    "SpectroscopicFibreOpticGroup": _BASE + _SPEC + ["acceptance_angle", "radius"],
    "BolometerCamera": [],
}
# properties that hold the member list itself, not a broadcast attribute
MEMBER_LIST_PROPS = {"observers", "sight_lines", "foil_detectors", "slits"}

GROUPS = {
    "SightLineGroup": (SightLineGroup, SightLine),
    "FibreOpticGroup": (FibreOpticGroup, FibreOptic),
    "PixelGroup": (PixelGroup, Pixel),
    "TargettedPixelGroup": (TargettedPixelGroup, TargettedPixel),
    "SpectroscopicSightLineGroup": (SpectroscopicSightLineGroup, SpectroscopicSightLine),
    "SpectroscopicFibreOpticGroup": (SpectroscopicFibreOpticGroup, SpectroscopicFibreOptic),
    "BolometerCamera": (BolometerCamera, (BolometerFoil, BolometerIRVB)),
}
GROUP_NAMES = sorted(GROUPS)


def _counting(base, really=False):
    def observe(self):
        self.vf_observed = getattr(self, "vf_observed", 0) + 1
        if really:      # 2-D detector: a real (2 pixel x 1 sample, serial, empty world) observation so that its frame exists
            base.observe(self)
    return type("Counting" + base.__name__, (base,), {"observe": observe})


OBS_BASE = {"sightline": SightLine, "fibreoptic": FibreOptic, "pixel": Pixel, "targettedpixel": TargettedPixel,
            "spec_sightline": SpectroscopicSightLine, "spec_fibreoptic": SpectroscopicFibreOptic, "foil": BolometerFoil,
            "irvb": BolometerIRVB}
OBS_CLS = {k: _counting(v, really=(k == "irvb")) for k, v in OBS_BASE.items()}
OBS_KINDS = sorted(OBS_BASE)
NON_OBSERVERS = ["node", "sphere", "none"]


def accepted_kinds(gname):
    mtype = GROUPS[gname][1]
    return [k for k in OBS_KINDS if issubclass(OBS_BASE[k], mtype)]


def rejected_kinds(gname):
    ok = set(accepted_kinds(gname))
    return [k for k in OBS_KINDS if k not in ok] + NON_OBSERVERS


# ------------------------------------------------------------------------------------------------ attribute table
# kind: int | float | bool | str | engine | pipelines | targets | point | vector | ppflag
class Spec:
    def __init__(self, kind, scalar_ok=True, member_attr=None):
        self.kind, self.scalar_ok, self.member_attr = kind, scalar_ok, member_attr
        self.numeric = kind in ("int", "float", "bool", "ppflag")


SPECS = {
    "names": Spec("str", scalar_ok=False, member_attr="name"),
    "render_engine": Spec("engine"),
    "spectral_bins": Spec("int"), "spectral_rays": Spec("int"),
    "max_wavelength": Spec("float"), "min_wavelength": Spec("float"),
    "ray_extinction_prob": Spec("float"), "ray_max_depth": Spec("int"), "ray_extinction_min_depth": Spec("int"),
    "ray_importance_sampling": Spec("bool"), "ray_important_path_weight": Spec("float"), "quiet": Spec("bool"),
    "pixel_samples": Spec("int"), "samples_per_task": Spec("int"),
    "pipelines": Spec("pipelines", scalar_ok=False),
    "sensitivity": Spec("float"), "acceptance_angle": Spec("float"), "radius": Spec("float"),
    "x_width": Spec("float"), "y_width": Spec("float"),
    "targets": Spec("targets"), "targetted_path_prob": Spec("float"),
    "origin": Spec("point"), "direction": Spec("vector"),
    "display_progress": Spec("ppflag"), "accumulate": Spec("ppflag"),
}
NAME_POOL = ["ch0", "ch1", "ch2", "ch3", "ch4", "ch5", "ch6", "ch7"]
PIPELINE_CLASSES = [PowerPipeline0D, RadiancePipeline0D, SpectralPowerPipeline0D, SpectralRadiancePipeline0D]
ENGINES = [SerialEngine, MulticoreEngine, RenderEngine]


def class_properties(cls):
    """name -> property object, for every Python-level property of the group class."""
    out = {}
    for name in dir(cls):
        try:
            p = inspect.getattr_static(cls, name)
        except AttributeError:
            continue
        if isinstance(p, property) and name not in MEMBER_LIST_PROPS:
            out[name] = p
    return out


def setter_names_ndarray(prop):
    if prop is None or prop.fset is None:
        return False
    try:
        return "ndarray" in inspect.getsource(prop.fset)
    except (OSError, TypeError):
        return False


def frac(x):
    return x - math.floor(x)


def edge_unit(u, k):
    """value in [0, 1] hitting both end points"""
    return 0.0 if k == 0 else (1.0 if k == 1 else u)


def logu(u, lo, hi):
    return math.exp(math.log(lo) + u * (math.log(hi) - math.log(lo)))


# ------------------------------------------------------------------------------------------------ strategies
_u = st.floats(0.0, 1.0, exclude_max=True)
_k = st.integers(0, 7)
_us = st.lists(_u, min_size=8, max_size=8)
_ks = st.lists(_k, min_size=8, max_size=8)


def member_args():
    return st.fixed_dictionaries({"v": st.integers(0, 7), "name": st.integers(-1, 7), "u": _u, "k": _k})


@st.composite
def hist_params(draw):
    gname = draw(st.sampled_from(GROUP_NAMES))
    n0 = draw(st.sampled_from([0, 0, 1, 2, 2, 3, 3, 4]))
    # "bare": the group is built with every argument left to its default (`cls()`), members are added afterwards
    ctor = {"parent": draw(st.sampled_from([True, True, True, False])), "positional": draw(st.booleans()),
            "container": draw(st.sampled_from(["list", "tuple"])), "transform": draw(st.booleans()),
            "bare": draw(st.sampled_from([False, False, True]))}
    # a second group of the same class, built the same way (same defaults left to default) with its own members
    second = {"init": [draw(member_args()) for _ in range(draw(st.sampled_from([0, 1, 2, 3])))]}
    return {"group": gname, "init": [draw(member_args()) for _ in range(n0)], "excluded": excluded_for(gname), "ctor": ctor,
            "second": second}


def _assign_args(kinds):
    return lambda: st.fixed_dictionaries({"a": st.integers(0, 59), "kind": st.sampled_from(kinds), "u": _us, "k": _ks})


# numeric attributes by storage type (a value written into the wrong attribute of the same type would be accepted silently)
INT_ATTRS = ["spectral_bins", "spectral_rays", "ray_max_depth", "ray_extinction_min_depth", "pixel_samples", "samples_per_task"]
FLOAT_ATTRS = ["max_wavelength", "min_wavelength", "ray_extinction_prob", "ray_important_path_weight", "sensitivity",
               "acceptance_angle", "radius", "x_width", "y_width", "targetted_path_prob"]
# constructor defaults / internal presets of the raysect observers (and of BolometerFoil)
MAGIC = {"spectral_bins": [15, 1], "spectral_rays": [1], "max_wavelength": [740.0], "min_wavelength": [375.0],
         "ray_extinction_prob": [0.01], "ray_max_depth": [500], "ray_extinction_min_depth": [3, 0],
         "ray_important_path_weight": [0.2], "pixel_samples": [1000], "samples_per_task": [250],
         "sensitivity": [1.0], "acceptance_angle": [5.0], "radius": [0.001], "x_width": [0.01, 0.0025], "y_width": [0.01, 0.005],
         "targetted_path_prob": [0.9, 1.0]}


def valid_for(attr, v, mm):
    """inter-attribute constraints of the raysect setters (ranges are respected by construction)."""
    if attr == "spectral_bins":
        return v >= max(1, mm["spectral_rays"])
    if attr == "spectral_rays":
        return 0 < v <= mm["spectral_bins"]
    if attr == "max_wavelength":
        return v > mm["min_wavelength"]
    if attr == "min_wavelength":
        return 0 < v < mm["max_wavelength"]
    return True


# ------------------------------------------------------------------------------------------------ the model
class Hist:
    OPS = {}

    def __init__(self, ctx, params):
        self.ctx = ctx
        self.gname = params["group"]
        self.init = params["init"]
        self.excluded = set(params.get("excluded", []))
        self.ctor = dict({"parent": True, "positional": False, "container": "list", "transform": False, "bare": False},
                         **params.get("ctor", {}))
        self.second = params.get("second", {"init": []})
        self.built = False
        self.sides = [None, None]      # saved (group, members, mm, slits) of the side that is not current; side 1 = second group
        self.cur = 0
        self.b_ops = 0                 # state-changing rules applied to the second group
        self.a_ops = 0
        self.held = [None, None]       # results returned by the getters of a side when it was left: must not change later
        self.cls, self.mtype = GROUPS[self.gname]
        self.is_camera = self.gname == "BolometerCamera"
        self.primary = BolometerFoil if self.is_camera else self.mtype
        self.world = self.group = None
        self.slits = {}
        self.members = []          # real members, in order
        self.mm = []               # model: one dict per member
        self.pstate = {}           # id(pipeline) -> [pipeline, display_progress, accumulate]
        self.attrs = []
        self.props = {}
        # evidence
        self.sets, self.wrongs, self.kinds, self.idx, self.lab = set(), set(), set(), set(), set()   # sets: (attr, "scalar"|"seq")
        self.rej, self.sizes, self.held_sets, self.falsy_sets = set(), set(), set(), set()
        self.n_changes = 0
        self.nt_distinct = self.nt_wrong_after = False
        self.cam_observed2 = self.cam_named = self.rejected = False

    # ---------------------------------------------------------------- construction
    def _ensure(self):
        if self.built:
            return
        self.built = True
        self.props = class_properties(self.cls)
        self.attrs = []
        names = set(self.props) | set(DOCUMENTED[self.gname])
        for n in sorted(names):
            if n not in SPECS:
                self.lab.add("unknown_attr:%s.%s" % (self.gname, n))
            elif n in self.excluded:
                self.lab.add("excluded_known")
            else:
                self.attrs.append(n)
        if any(x.startswith("member:") for x in self.excluded):
            self.lab.add("excluded_known")
        self.world = World()
        self._build_group(self.init, "group")

    def _build_group(self, init, gname):
        """constructs a group with its initial members into the *current* side (self.group / members / mm / slits)."""
        ctx, c = self.ctx, self.ctor
        self.group, self.members, self.mm, self.slits = None, [], [], {}
        parent = self.world if (c["parent"] or self.is_camera) else None     # (a 2-D IRVB member really observes: needs a World)
        tr = translate(0.5, -0.25, 1.0) if c["transform"] else None
        with ctx.cut("construct"):
            if c["bare"]:
                g = self.cls()
                if self.is_camera:
                    g.parent = self.world
                self.group = g
                members = [self._new_member(a, accepted=True) for a in init]
                snaps = [self._snapshot(m) for m in members]
                for m in members:
                    g.add_foil_detector(m) if self.is_camera else g.add_observer(m)
                self.lab.add("ctor:bare")
            elif self.is_camera:
                self.group = self.cls(None, parent, tr, gname) if c["positional"] else self.cls(parent=parent, transform=tr, name=gname)
                members = [self._new_member(a, accepted=True) for a in init]
                snaps = [self._snapshot(m) for m in members]
                for m in members:
                    self.group.add_foil_detector(m)
            else:
                members = [self._new_member(a, accepted=True) for a in init]
                snaps = [self._snapshot(m) for m in members]
                given = list(members) if c["container"] == "list" else tuple(members)
                self.group = self.cls(parent, tr, gname, given) if c["positional"] else \
                    self.cls(parent=parent, transform=tr, name=gname, observers=given)
                if isinstance(given, list):        # the caller edits its own list afterwards
                    given.reverse()
                    del given[1:]
                self.lab.add("ep:ctor_observers:" + c["container"])
        if not c["bare"]:
            self.lab.add("ctor:" + ("positional" if c["positional"] else "keyword") + ("" if parent is not None else ":no_parent")
                         + (":transform" if c["transform"] else ""))
        self.members, self.mm = list(members), snaps

    # ---------------------------------------------------------------- two groups of the same class alive at once
    def _swap(self):
        """makes the other side current (no checks, no construction)."""
        self.sides[self.cur] = (self.group, self.members, self.mm, self.slits)
        self.cur = 1 - self.cur
        self.group, self.members, self.mm, self.slits = self.sides[self.cur]

    def _hold(self):
        """what the getters of the current side return now - these lists belong to the caller and must not change later."""
        out = {}
        with self.ctx.cut("getter"):
            for attr in self.attrs:
                lst = getattr(self.group, attr)
                out[attr] = (lst, list(lst))
            mem = self.group.foil_detectors if self.is_camera else self.group.observers
            out["<members>"] = (mem, list(mem))
        return out

    def _check_held(self):
        held = self.held[self.cur]
        if held is None:
            return
        for attr, (lst, copy) in held.items():
            same = len(lst) == len(copy) and all((a is b) or (isinstance(a, (int, float, str, bool)) and a == b) or
                                                 (isinstance(a, (list, tuple)) and list(a) == list(b)) for a, b in zip(lst, copy))
            self.ctx.check(same, "repeat:%s.%s" % (self.gname, attr),
                           lambda: "the result group.%s returned earlier (%s) was modified by later calls: now %s"
                           % (attr, self._show(copy), self._show(lst)))
        self.held[self.cur] = None
        self.lab.add("repeat:held_results")

    def _used(self):
        """a state-changing rule is about to be applied to the current group"""
        if self.cur == 1:
            self.b_ops += 1
        else:
            self.a_ops += 1
            if self.b_ops:
                self.lab.add("interference:first_group_used_after_second")

    def do_switch(self, a):
        """the following rules go to the other group of the same class; it is built (same constructor form, its own generated
        members) when first needed.  The invariant checks BOTH groups after every rule."""
        self._ensure()
        first_use_of_a = self.cur == 0 and self.a_ops == 0
        self.held[self.cur] = self._hold()
        if self.sides[1 - self.cur] is None and self.cur == 0:
            self.sides[0] = (self.group, self.members, self.mm, self.slits)
            self.cur = 1
            self._build_group(self.second.get("init", []), "group B")
            self.lab.add("second:built")
            if first_use_of_a:
                self.lab.add("second:built_before_first_use")
        else:
            self._swap()
        self._check_held()

    def close(self):
        try:
            if self.group is not None:
                self.group.parent = None
        except Exception:  # noqa
            pass
        for side in self.sides:
            try:
                if side is not None and side[0] is not None:
                    side[0].parent = None
            except Exception:  # noqa
                pass
        self.group = self.world = None
        self.members, self.mm, self.pstate, self.slits, self.sides, self.held = [], [], {}, {}, [None, None], [None, None]

    def _new_pipelines(self, u, k):
        out = []
        for i in range(1 + k % 3):
            pc = PIPELINE_CLASSES[(k + 3 * i + int(u * 4)) % 4]
            acc = bool((k + i + int(u * 16)) % 2)
            if issubclass(pc, SpectralPowerPipeline0D):
                out.append(pc(accumulate=acc, display_progress=bool((k + i + int(u * 32)) % 2)))
            else:
                out.append(pc(accumulate=acc))
        return out

    def _register(self, pipelines):
        for p in pipelines:
            if id(p) not in self.pstate:
                self.pstate[id(p)] = [p, getattr(p, "display_progress", None), p.accumulate]

    def _direction(self, u, k):
        if k == 0:
            return Vector3D(0, 0, 1)
        theta = 0.2 + u * (math.pi - 0.4)
        phi = 2 * math.pi * frac(u * 7.3 + 0.11)
        s = 0.1 + 10.0 * frac(u * 13.7 + 0.29)
        return Vector3D(s * math.sin(theta) * math.cos(phi), s * math.sin(theta) * math.sin(phi), s * math.cos(theta))

    @staticmethod
    def _point(u):
        return Point3D(-5 + 10 * u, -5 + 10 * frac(u * 7.3 + 0.11), -5 + 10 * frac(u * 13.7 + 0.29))

    def _slit(self, i):
        """up to three slits; several foils share one (slit 0 and 2 belong to the camera / group, slit 1 to the world)."""
        if i not in self.slits:
            parent = self.group if (self.is_camera and i != 1 and self.group is not None) else self.world
            self.slits[i] = BolometerSlit("slit%d" % i, Point3D(0.01 * i, 0, 0), Vector3D(1, 0, 0), 0.0025, Vector3D(0, 1, 0), 0.005,
                                          parent=parent)
        return self.slits[i]

    def _new_member(self, a, accepted):
        """builds an object of an accepted / rejected kind (my own constructor calls: never a violation)."""
        if accepted:
            kinds = [kk for kk in accepted_kinds(self.gname) if "member:" + kk not in self.excluded]
            exact = [kk for kk in kinds if OBS_BASE[kk] is self.primary]
            others = [kk for kk in kinds if kk not in exact]
            kind = exact[0] if (a["v"] < 5 or not others) else others[a["v"] % len(others)]   # mostly the exact type
        else:
            kinds = rejected_kinds(self.gname)
            kind = kinds[a["v"] % len(kinds)]
        return self._build(kind, a)

    def _build(self, kind, a):
        name = None if a["name"] < 0 else NAME_POOL[a["name"]]
        u, k = a["u"], a["k"]
        if kind == "node":
            return Node(name=name)
        if kind == "sphere":
            return Sphere(name=name)
        if kind == "none":
            return None
        C = OBS_CLS[kind]
        pipes = self._new_pipelines(u, k) if k % 4 else None
        if kind == "foil":
            # most foils sit behind slit 0 (shared), some behind a second / third one
            slit = self._slit(0 if k < 5 else k - 5)
            return C(name or "foil", Point3D(0.01 * u, 0, -0.08), Vector3D(1, 0, 0), 0.0025, Vector3D(0, 1, 0), 0.005,
                     slit, units="Power" if k % 2 else "Radiance")
        if kind == "irvb":
            m = C(name or "irvb", 0.02, (2, 1), self._slit(0 if k < 6 else 1), translate(0.01 * u, 0, -0.05),
                  units="power" if k % 2 else "radiance")
            m.pixel_samples = 1
            m.render_engine = SerialEngine()
            for p in m.pipelines:
                p.display_progress = False
            return m
        # arguments that are "not given" are really omitted, so that the defaults of the signatures are what is used
        kw = {}
        if pipes is not None:
            kw["pipelines"] = pipes
        else:
            self.lab.add("member:default_pipelines")
        if name is not None:
            kw["name"] = name
        if kind == "targettedpixel":
            return C([Sphere() for _ in range(1 + k % 2)], **kw)
        if kind in ("spec_sightline", "spec_fibreoptic"):
            if k == 4:
                return C(**kw)                                   # origin / direction left to their defaults
            if k % 2:
                return C(origin=self._point(u), direction=self._direction(u, k), **kw)
            return C(self._point(u), self._direction(u, k), **kw)
        return C(**kw)

    def _read_member(self, m, attr):
        return getattr(m, SPECS[attr].member_attr or attr)

    def _snapshot(self, m):
        """model entry of a new member = its attribute values before it enters the group."""
        d = {"count": getattr(m, "vf_observed", 0)}
        d["names"] = m.name
        d["pipelines"] = tuple(m.pipelines)
        self._register(d["pipelines"])
        for attr in set(SPECS) - {"names", "pipelines"}:
            kind = SPECS[attr].kind
            if kind == "ppflag" or not hasattr(m, attr):
                continue
            v = getattr(m, attr)
            if kind == "point":
                v = (v.x, v.y, v.z)
            elif kind == "vector":
                v = (v.x, v.y, v.z)
            elif kind == "targets":
                v = tuple(v)
            d[attr] = v
        return d

    # ---------------------------------------------------------------- expected values
    def _expected(self, j, attr):
        mm, kind = self.mm[j], SPECS[attr].kind
        if kind == "ppflag":
            out = []
            for p in mm["pipelines"]:
                stt = self.pstate[id(p)]
                if attr == "display_progress":
                    out.append(stt[1] if isinstance(p, SpectralPowerPipeline0D) else None)
                else:
                    out.append(stt[2] if isinstance(p, (PowerPipeline0D, SpectralPowerPipeline0D)) else None)
            return out
        return mm[attr]

    @staticmethod
    def _same(kind, got, want):
        try:
            if kind in ("int", "float", "bool", "str"):
                return bool(got == want)
            if kind == "engine":
                return got is want
            if kind in ("pipelines", "targets"):
                got = tuple(got)
                return len(got) == len(want) and all(a is b for a, b in zip(got, want))
            if kind in ("point", "vector"):
                return all(abs(a - b) <= 1e-9 for a, b in zip((got.x, got.y, got.z), want))
            if kind == "ppflag":
                return list(got) == list(want)
        except Exception:  # noqa  (wrong type of `got`: not the expected value)
            return False
        return False

    @staticmethod
    def _show(v):
        s = repr(v)
        return s if len(s) < 160 else s[:160] + "..."

    # ---------------------------------------------------------------- invariant
    def _group_members(self):
        with self.ctx.cut("members"):
            if self.is_camera:
                return tuple(self.group.foil_detectors)
            return tuple(self.group.observers)

    def invariant(self):
        self._ensure()
        self._check_side()
        if self.sides[1 - self.cur] is not None:
            other = self.sides[1 - self.cur]
            self._swap()
            try:
                self._check_side()
            finally:
                self._swap()
            ctx = self.ctx
            both = list(self.members) + list(other[1])
            ctx.check(len({id(m) for m in both}) == len(both), "interference:members", "the two groups share a member object")
            if self.b_ops:
                self.lab.add("interference")
        # no pipeline object is connected to two members (none is ever assigned twice by this check) - in either group
        seen = {}
        for side in ([(self.group, self.members, self.mm, self.slits)] + [x for x in [self.sides[1 - self.cur]] if x is not None]):
            for j, m in enumerate(side[1]):
                with self.ctx.cut("member-read:pipelines"):
                    pl = tuple(m.pipelines)
                for p in pl:
                    self.ctx.check(id(p) not in seen, "interference:pipelines",
                                   lambda: "pipeline %r is connected to member %r of %r and to %r" % (p, m.name, side[0].name, seen[id(p)]))
                    seen[id(p)] = (m.name, side[0].name)

    def _check_side(self):
        ctx, g, n = self.ctx, self.group, len(self.members)
        self.sizes.add(n)
        real = self._group_members()
        ctx.check(len(real) == n and all(a is b for a, b in zip(real, self.members)), "members",
                  lambda: "%s holds %d members %s, model has %d %s" % (self.gname, len(real), [getattr(x, "name", x) for x in real],
                                                                      n, [m.name for m in self.members]))
        with ctx.cut("len"):
            ln = len(g)
        ctx.check(ln == n, "len", "len(group) = %r, %d members" % (ln, n))
        for j, m in enumerate(self.members):
            with ctx.cut("parent"):
                par = m.parent
            ctx.check(par is g, "parent", lambda: "%s: parent of member %d (%r) is %r, not the group" % (self.gname, j, m.name, par))
            cnt = getattr(m, "vf_observed", 0)
            ctx.check(cnt == self.mm[j]["count"], "observe",
                      lambda: "%s: member %d observed %d times, expected %d" % (self.gname, j, cnt, self.mm[j]["count"]))
        if self.is_camera:
            with ctx.cut("slits"):
                sl = g.slits
            ctx.check(isinstance(sl, list) and all(any(m.slit is s for s in sl) for m in self.members), "slits",
                      lambda: "camera.slits %r does not hold the slit of every member" % (sl,))
        for attr in self.attrs:
            kind = SPECS[attr].kind
            what = "%s.%s" % (self.gname, attr)
            want = [self._expected(j, attr) for j in range(n)]
            for j, m in enumerate(self.members):
                with ctx.cut("member-read:" + what):
                    got = self._read_member(m, attr)
                ctx.check(self._same(kind, got, want[j]), "member:" + what,
                          lambda: "member %d of %d has %s = %s, model expects %s" % (j, n, attr, self._show(got), self._show(want[j])))
            with ctx.cut("getter:" + what):
                lst = getattr(g, attr)
            ctx.check(isinstance(lst, (list, tuple)) and len(lst) == n and all(self._same(kind, a, b) for a, b in zip(lst, want)),
                      "getter:" + what, lambda: "group.%s returns %s, members (in order) hold %s" % (attr, self._show(lst), self._show(want)))

    _SYNTH_MEMBER = {"v": 0, "name": 5, "u": 0.37, "k": 3}

    def finish(self):
        self._ensure()
        ctx = self.ctx
        if self.cur == 1:
            self.do_switch(0)
            self.invariant()
        # coverage sweep: every broadcast attribute of this class gets at least one valid assignment through each branch of
        # its setter (scalar, sequence) and one wrong-length assignment per history (with arguments that are a fixed
        # function of the attribute index), every rejected kind is offered once, and the member list is once assigned as a
        # list that the caller edits afterwards, followed by an add, a broadcast and an observe - so that the coverage
        # demanded by REQUIRED_LABELS does not depend on the luck of the draw
        while self.attrs and len(self.members) < 2:
            self.do_member_add(dict(self._SYNTH_MEMBER, k=0, name=len(self.members)))     # default-built member
            self.invariant()
        for idx, attr in enumerate(list(self.attrs)):
            synth = {"a": idx, "kind": ("list", "tuple", "ndarray")[idx % 3], "u": [((idx * 7 + j * 3) % 10) / 10.0 + 0.03 for j in range(8)],
                     "k": [(idx + 2 * j) % 11 for j in range(8)]}
            if (attr, "seq") not in self.sets:
                self.do_assign(synth)
                self.invariant()
            if (attr, "scalar") not in self.sets and SPECS[attr].scalar_ok:
                self.do_assign(dict(synth, kind="scalar"))
                self.invariant()
            if attr not in self.wrongs:
                self.do_assign_wrong(dict(synth, kind="list"))
                self.invariant()
            if attr not in self.held_sets:
                self._sweep_held(attr)
            if attr in self.FALSY:
                self._sweep_falsy(attr)
        for i, kind in enumerate(rejected_kinds(self.gname)):
            if kind not in self.rej:
                self.do_member_add_wrong(dict(self._SYNTH_MEMBER, v=i, k=i))
                self.invariant()
        if "tail" not in self.lab:
            self._tail()
        self._interference_tail()
        ctx.label("class:" + self.gname)
        ctx.label(*sorted(self.lab))
        for a in sorted({a for a, _ in self.sets}):
            ctx.label("set:%s.%s" % (self.gname, a))
        for a, br in sorted(self.sets):
            ctx.label("set%s:%s.%s" % (br, self.gname, a))
        for a in sorted(self.wrongs):
            ctx.label("wrong:%s.%s" % (self.gname, a))
        for kk in sorted(self.rej):
            ctx.label("reject:%s.%s" % (self.gname, kk))
        for a in sorted(self.held_sets):
            ctx.label("heldscalar:%s.%s" % (self.gname, a))
        for a in sorted(self.falsy_sets):
            ctx.label("falsy:%s.%s" % (self.gname, a))
        ctx.label(*sorted("kind:" + k for k in self.kinds))
        ctx.label(*sorted("index:" + k for k in self.idx))
        ctx.label(*sorted("size:%d" % x for x in self.sizes))        # every group size that was checked in this history
        if self.is_camera:
            ctx.nt(self.cam_observed2 and self.cam_named and self.rejected)
        else:
            ctx.nt(self.nt_distinct and self.nt_wrong_after)

    def _tail(self):
        """member list assigned as a LIST (same members, reversed), the caller then edits its list; add, broadcast, observe."""
        self.do_replace({"perm": [4, 3, 2, 1, 0], "keep": 5, "mode": "perm", "m": dict(self._SYNTH_MEMBER, k=0)})
        self.invariant()
        if len(self.members) < 5:
            self.do_member_add(dict(self._SYNTH_MEMBER, k=2))
            self.invariant()
        if "quiet" in self.attrs:
            self.do_assign({"a": self.attrs.index("quiet"), "kind": "scalar", "u": [0.3] * 8, "k": [5] * 8})
            self.invariant()
        self.do_observe(0)
        self.invariant()
        self.do_index({"mode": "iter", "i": 0, "s": [None, None, None]})
        self.lab.add("tail")

    def _interference_tail(self):
        """second group of the same class (built the same way, own members): add, connect_pipelines with defaults, broadcasts,
        rename, observe on it - the first group is re-checked after each step, then used again; the same calls twice in a row."""
        zeros = {"k": [0] * 8}
        self.do_switch(0)
        self.invariant()
        if len(self.members) < 5:
            self.do_member_add(dict(self._SYNTH_MEMBER, k=0, name=6))     # k=0: pipelines left to the observer's default
            self.invariant()
        if not self.is_camera:
            self.do_connect(zeros)
            self.invariant()
            for i, attr in enumerate(self.attrs[:3] + [x for x in ("display_progress", "accumulate", "quiet") if x in self.attrs]):
                self.do_assign({"a": self.attrs.index(attr), "kind": "scalar", "u": [0.41 + 0.07 * i] * 8, "k": [5] * 8})
                self.invariant()
        if self.members:
            self.do_rename([0, 6])
            self.invariant()
        self.do_observe(0)
        self.invariant()
        self.do_switch(0)
        self.invariant()
        # the same call twice in a row on the first group
        self.do_observe(0)
        self.invariant()
        self.do_observe(0)
        self.invariant()
        if not self.is_camera:
            self.do_connect(zeros)
            self.invariant()
            self.do_connect(zeros)
            self.invariant()
        for _ in range(2):
            self.do_index({"mode": "name", "i": 6, "s": [None, None, None]})
            self.do_index({"mode": "int", "i": 0, "s": [None, None, None]})
        self.lab.add("repeat:same_call_twice")

    # ---------------------------------------------------------------- value construction
    def _random_value(self, attr, u, k, mms):
        kind = SPECS[attr].kind
        if attr == "spectral_bins":
            return max([m["spectral_rays"] for m in mms], default=1) + int(u * 40)
        if attr == "spectral_rays":
            hi = min([m["spectral_bins"] for m in mms], default=15)
            return min(hi, 1 + int(u * hi))
        if attr == "max_wavelength":
            return max([m["min_wavelength"] for m in mms], default=375.0) * (1.001 + 2.0 * u)
        if attr == "min_wavelength":
            return min([m["max_wavelength"] for m in mms], default=740.0) * (0.02 + 0.97 * u)
        if attr in ("ray_extinction_prob", "ray_important_path_weight", "targetted_path_prob"):
            return edge_unit(u, k)
        if attr == "ray_max_depth":
            return int(u * 100)
        if attr == "ray_extinction_min_depth":
            return int(u * 20)
        if attr in ("pixel_samples", "samples_per_task"):
            return 1 + int(u * 5000)
        if attr == "sensitivity":
            return logu(u, 1e-3, 1e3)
        if attr == "acceptance_angle":
            return 0.01 + 89.99 * (1.0 - u)      # (0.01, 90], 90 included; raysect cone sampler divides by zero for ~0
        if attr in ("radius", "x_width", "y_width"):
            return logu(u, 1e-5, 1.0)
        if kind in ("bool", "ppflag"):
            return u < 0.5
        raise KeyError(attr)

    @staticmethod
    def _boundary_value(attr, u, mms):
        """a value on the edge of what the member setters accept (None: no such edge)."""
        if attr == "spectral_bins":
            return max([m["spectral_rays"] for m in mms], default=1)
        if attr == "spectral_rays":
            return min([m["spectral_bins"] for m in mms], default=15)
        if attr == "max_wavelength":
            return float(np.nextafter(max([m["min_wavelength"] for m in mms], default=375.0), np.inf))
        if attr == "min_wavelength":
            return float(np.nextafter(min([m["max_wavelength"] for m in mms], default=740.0), 0.0))
        if attr in ("ray_extinction_prob", "ray_important_path_weight", "targetted_path_prob"):
            return 1.0 if u < 0.5 else 0.0
        if attr in ("ray_max_depth", "ray_extinction_min_depth"):
            return 0
        if attr in ("pixel_samples", "samples_per_task"):
            return 1
        if attr == "acceptance_angle":
            return 90.0
        return None

    @staticmethod
    def _integral_value(attr, u, mms):
        """a Python int that is a valid value of a float attribute (None: none exists)."""
        if attr == "sensitivity":
            return 1 + int(u * 999)
        if attr in ("radius", "x_width", "y_width"):
            return 1 + int(u * 3)
        if attr == "acceptance_angle":
            return min(90, 1 + int(u * 90))
        if attr in ("ray_extinction_prob", "ray_important_path_weight", "targetted_path_prob"):
            return int(u < 0.5)
        if attr == "max_wavelength":
            return int(math.floor(max([m["min_wavelength"] for m in mms], default=375.0))) + 1 + int(u * 300)
        if attr == "min_wavelength":
            top = int(math.ceil(min([m["max_wavelength"] for m in mms], default=740.0))) - 1     # < max
            return 1 + int(u * top) if top >= 1 and 1 + int(u * top) <= top else (1 if top >= 1 else None)
        return None

    def _value(self, attr, u, k, mms, integral=False, others=True):
        """concrete value of `attr`, valid for every member model in `mms` (empty: no receiver).
        k selects the class of value: 2 = constructor default / preset, 3 = boundary of the accepted range, 4 = the
        receiver's current value (single receiver), otherwise a random value that differs from the receiver's current value
        of this and of every other attribute of the same storage type."""
        kind = SPECS[attr].kind
        if attr == "names":
            if k in (0, 1):
                self.lab.add("falsy:empty_name")
                return ""                     # un-naming a member through the group (Node.name takes '' but not None)
            return NAME_POOL[int(u * 8) % 8]
        if kind == "engine":
            return ENGINES[k % 3]()
        if kind == "pipelines":
            return self._new_pipelines(u, k)
        if kind == "targets":
            return [Sphere() for _ in range(1 + k % 3)]
        if kind == "point":
            return self._point(u)
        if kind == "vector":
            return self._direction(u, k)
        ok = lambda x: x is not None and all(valid_for(attr, x, m) for m in mms)   # noqa: E731
        if kind == "float" and integral:
            v = self._integral_value(attr, u, mms)
            if ok(v):
                return v
        if k == 2 and attr in MAGIC:
            v = MAGIC[attr][int(u * 8) % len(MAGIC[attr])]
            if ok(v):
                self.lab.add("value:default")
                return v
        if k == 3:
            v = self._boundary_value(attr, u, mms)
            if ok(v):
                self.lab.add("value:boundary")
                return v
        if k == 4 and len(mms) == 1 and attr in mms[0]:
            self.lab.add("value:current")
            return mms[0][attr]
        v = self._random_value(attr, u, k, mms)
        if not mms or not others:
            return v
        if kind in ("bool", "ppflag"):
            if kind == "bool" and attr in mms[0]:
                return not mms[0][attr]           # the write must be observable on the attribute it is meant for
            return v
        pool = INT_ATTRS if kind == "int" else FLOAT_ATTRS
        taken = {m[a] for m in mms for a in pool if a in m}
        for step in range(1, 40):
            if v not in taken:
                break
            cand = (v + step, v - step) if kind == "int" else (v * (1 + 1e-3 * step), v * (1 - 1e-3 * step))
            for c in cand:
                in_range = (c >= (0 if "depth" in attr else 1)) if kind == "int" else \
                    (0 < c and (c <= 1 if "prob" in attr or "weight" in attr else True) and (c <= 90 if attr == "acceptance_angle" else True))
                if c not in taken and in_range and ok(c):
                    return c
        return v

    def _held_value(self, attr, j):
        """an assignable value equal to what member j currently holds for `attr` (None: no scalar form / nothing held)."""
        kind, mm = SPECS[attr].kind, self.mm[j]
        if kind in ("int", "float", "bool", "engine"):
            return mm.get(attr)
        if kind == "targets":
            return list(mm[attr]) if attr in mm else None
        if kind == "point":
            return Point3D(*mm[attr]) if attr in mm else None
        if kind == "vector":
            return Vector3D(*mm[attr]) if attr in mm else None
        if kind == "ppflag":
            flags = [x for x in self._expected(j, attr) if x is not None]
            return flags[0] if flags else None
        return None

    def _holds(self, i, attr, v):
        """does member i already hold the scalar v ?"""
        kind = SPECS[attr].kind
        if kind == "ppflag":
            return all(x == v for x in self._expected(i, attr) if x is not None)
        if kind == "targets":
            return self._same(kind, self.mm[i][attr], tuple(v))
        if kind in ("point", "vector"):
            return self._same(kind, v, self.mm[i][attr])
        return self._same(kind, self.mm[i][attr], v)

    def _held_scalar(self, attr, which):
        """-> (value held by the first / last / a middle member, position label) if it is valid for every member and NOT held
        by all of them, else None"""
        n = len(self.mm)
        if n < 2 or not SPECS[attr].scalar_ok:
            return None
        order = {0: [0, n - 1, n // 2], 1: [n - 1, 0, n // 2], 2: [n // 2, 0, n - 1]}[which % 3]
        for j in order:
            v = self._held_value(attr, j)
            if v is None or not all(valid_for(attr, v, m) for m in self.mm):
                continue
            if all(self._holds(i, attr, v) for i in range(n)):
                continue
            return v, ("first" if j == 0 else ("last" if j == n - 1 else "middle"))
        return None

    def _assign_scalar_value(self, attr, v, what):
        """group.attr = v (single value) on the real group and on the model"""
        with self.ctx.cut("assign-scalar:" + what):
            setattr(self.group, attr, v)
        for j in range(len(self.mm)):
            self._apply(j, attr, v)
        self.sets.add((attr, "scalar"))
        self.kinds.add("scalar")

    _PARTNER = {"spectral_bins": "spectral_rays", "spectral_rays": "spectral_bins",
                "max_wavelength": "min_wavelength", "min_wavelength": "max_wavelength"}

    def _relax(self, attr):
        """sets the attribute that constrains `attr` to one value for which every value currently held for `attr` is valid."""
        other = self._PARTNER.get(attr)
        if other is None or other not in self.attrs or not self.mm:
            return
        cur = [m[attr] for m in self.mm]
        v = {"spectral_bins": 1, "spectral_rays": max(cur), "max_wavelength": 0.5 * min(cur), "min_wavelength": 2.0 * max(cur)}[attr]
        if all(valid_for(other, v, m) for m in self.mm):
            self._assign_scalar_value(other, v, "%s.%s" % (self.gname, other))
            self.invariant()

    FALSY = {"names": ("", None), "ray_extinction_prob": (0.0, 0.5), "ray_important_path_weight": (0.0, 0.5),
             "targetted_path_prob": (0.0, 0.5), "ray_max_depth": (0, 7), "ray_extinction_min_depth": (0, 4),
             "ray_importance_sampling": (False, True), "quiet": (False, True), "display_progress": (False, True),
             "accumulate": (False, True)}

    def _assign_seq_values(self, attr, vals, kind="list"):
        seq = tuple(vals) if kind == "tuple" else list(vals)
        with self.ctx.cut("assign-%s:%s.%s" % (kind, self.gname, attr)):
            setattr(self.group, attr, seq)
        for j, v in enumerate(vals):
            self._apply(j, attr, v)
        self.sets.add((attr, "seq"))
        self.invariant()

    def _sweep_falsy(self, attr):
        """members hold truthy values -> a sequence whose first element is the falsy-but-valid value ('' / 0 / 0.0 / False),
        then truthy again -> the falsy value as scalar; for names: lookup by the old name fails, by '' finds the member."""
        falsy, truthy = self.FALSY[attr]
        n = len(self.mm)
        if n < 1:
            return
        what = "%s.%s" % (self.gname, attr)
        if attr == "names":
            old = ["old%d" % j for j in range(n)]
            self._assign_seq_values(attr, old)
            self._assign_seq_values(attr, [""] + ["new%d" % j for j in range(1, n)], "tuple" if n % 2 else "list")
            self.ctx.raises((ValueError, LookupError), "index:name-missing", self.group.__getitem__, old[0])
            with self.ctx.cut("index:name"):
                got = self.group[""]
            self.ctx.check(got is self.members[0], "index:name", "group[''] does not return the member whose name was set to ''")
            self.lab.add("falsy:name_lookup")
        else:
            self._assign_scalar_value(attr, truthy, what)
            self.invariant()
            self._assign_seq_values(attr, [falsy] + [truthy] * (n - 1), "tuple" if n % 2 else "list")
            self._assign_scalar_value(attr, truthy, what)
            self.invariant()
            self._assign_scalar_value(attr, falsy, what)
            self.invariant()
            self.lab.add("falsy:scalar")
        self.lab.add("falsy:seq")
        self.falsy_sets.add(attr)

    def _sweep_held(self, attr):
        """heterogeneous group -> the value of the first member as scalar; last member edited directly -> its value as scalar"""
        what = "%s.%s" % (self.gname, attr)
        n = len(self.mm)
        if n < 2 or not SPECS[attr].scalar_ok:
            return
        self._relax(attr)
        for which in (0, 1):
            got = self._held_scalar(attr, which)
            if got is None or got[1] != ("first", "last")[which]:
                # make the group heterogeneous by a direct edit of the last member
                j = n - 1
                self.do_edit({"a": self.attrs.index(attr), "u": [0.83 - 0.11 * which] * 8, "k": [5, 5, 5, j, 5, 5, 5, 5]})
                self.invariant()
                got = self._held_scalar(attr, which)
            if got is None:
                continue
            v, pos = got
            self._assign_scalar_value(attr, v, what)
            self.held_sets.add(attr)
            self.lab.add("heldscalar:" + pos)
            self.invariant()

    def _elements(self, attr, u, k, L, form):
        """the L element values of a sequence for `attr` (element j is valid for member j)."""
        n = len(self.mm)
        return [self._value(attr, u[j], k[j], [self.mm[j]] if j < n else [], integral=(form == "integral")) for j in range(L)]

    def _container(self, attr, values, kind, form):
        """-> (container handed to the setter, the Python values the members must then hold)"""
        sk = SPECS[attr].kind
        if kind == "tuple":
            if sk in ("pipelines", "targets"):
                return tuple(tuple(v) if i % 2 else v for i, v in enumerate(values)), values
            return tuple(values), values
        if kind == "ndarray":
            if sk == "float":
                if form == "integral" and all(isinstance(v, int) for v in values):
                    arr = np.array(values, dtype=np.int64)
                elif form == "float32":
                    arr = np.array(values, dtype=np.float32)
                    n = len(self.mm)
                    if not all(valid_for(attr, x.item(), self.mm[j]) and (attr != "acceptance_angle" or 0 < x.item() <= 90)
                               for j, x in enumerate(arr) if j < n):
                        arr = np.array(values, dtype=np.float64)
                else:
                    arr = np.array(values, dtype=np.float64)
            elif sk == "int":
                arr = np.array(values, dtype=np.int32 if form == "float32" else np.int64)
            else:
                arr = np.array(values, dtype=np.int8 if form == "integral" else np.bool_)
            if form == "strided":
                big = np.zeros(2 * len(values) + 1, dtype=arr.dtype)
                big[::2][:len(values)] = arr
                arr = big[::2][:len(values)]
                self.lab.add("form:strided")
            self.lab.add("form:dtype:%s" % arr.dtype)
            return arr, [x.item() for x in arr]
        return list(values), values

    def _seq_kind(self, attr, kind):
        if kind == "ndarray" and not (SPECS[attr].numeric and setter_names_ndarray(self.props.get(attr))):
            return "tuple"
        return kind

    @staticmethod
    def _freeze(seq):
        if isinstance(seq, np.ndarray):
            return seq.copy()
        return [list(x) if isinstance(x, (list, tuple)) else x for x in seq]

    @staticmethod
    def _unchanged(seq, snap):
        if isinstance(seq, np.ndarray):
            return seq.dtype == snap.dtype and np.array_equal(seq, snap)
        if len(seq) != len(snap):
            return False
        for x, y in zip(seq, snap):
            if isinstance(x, (list, tuple)):
                if len(x) != len(y) or any(a is not b for a, b in zip(x, y)):
                    return False
            elif isinstance(x, (int, float, bool, str)) or x is None:
                if x != y or type(x) is not type(y):
                    return False
            elif x is not y:
                return False
        return True

    @staticmethod
    def _scramble(seq):
        """the caller re-uses its own container after the call"""
        if isinstance(seq, np.ndarray):
            if seq.size:
                seq[...] = seq[0]
                seq[...] = seq + 1 if seq.dtype != np.bool_ else ~seq
        elif isinstance(seq, (list, tuple)):
            for x in seq:
                if isinstance(x, list):
                    del x[:]
            if isinstance(seq, list):
                seq.reverse()
                del seq[1:]

    def _apply(self, j, attr, v):
        """the model's version of `member_j.attr = v`"""
        mm, kind = self.mm[j], SPECS[attr].kind
        if kind in ("int", "float", "bool", "str", "engine"):
            mm[attr] = v
        elif kind == "pipelines":
            mm[attr] = tuple(v)
            self._register(mm[attr])
        elif kind == "targets":
            mm[attr] = tuple(v)
        elif kind == "point":
            mm[attr] = (v.x, v.y, v.z)
        elif kind == "vector":
            w = v.normalise()
            mm[attr] = (w.x, w.y, w.z)
        elif kind == "ppflag":
            for p in mm["pipelines"]:
                if attr == "display_progress" and isinstance(p, SpectralPowerPipeline0D):
                    self.pstate[id(p)][1] = bool(v)
                if attr == "accumulate" and isinstance(p, (PowerPipeline0D, SpectralPowerPipeline0D)):
                    self.pstate[id(p)][2] = bool(v)

    # ---------------------------------------------------------------- rules
    def pre_member_add(self):
        return len(self.members) < 5

    def do_member_add(self, a):
        self._ensure()
        self._used()
        ctx = self.ctx
        if len(self.members) >= 5:
            return
        m = self._new_member(a, accepted=True)
        snap = self._snapshot(m)
        kw = a["k"] in (2, 3)          # keyword / positional call
        with ctx.cut("add"):
            if self.is_camera:
                self.group.add_foil_detector(foil_detector=m) if kw else self.group.add_foil_detector(m)
                self.lab.add("ep:add_foil_detector")
            elif hasattr(self.group, "add_sight_line") and a["k"] % 2:
                self.group.add_sight_line(sight_line=m) if kw else self.group.add_sight_line(m)
                self.lab.add("ep:add_sight_line")
            else:
                self.group.add_observer(observer=m) if kw else self.group.add_observer(m)
                self.lab.add("ep:add_observer")
        self.members.append(m)
        self.mm.append(snap)
        if type(m).__mro__[1] is not self.primary:
            self.lab.add("add:subclass")
        if type(m).__mro__[1] is BolometerIRVB:
            self.lab.add("member:irvb")
        if self.is_camera and sum(1 for x in self.members if x.slit is m.slit) >= 2:
            self.lab.add("shared_slit")

    def do_member_add_wrong(self, a):
        self._ensure()
        ctx, g = self.ctx, self.group
        kinds = rejected_kinds(self.gname)
        kind = kinds[a["v"] % len(kinds)]
        obj = self._build(kind, a)
        if not self.is_camera and a["k"] % 3 == 2:
            # offered through the constructor of a second group of the same class, after a valid observer
            good = self._new_member(dict(a, v=0), accepted=True)
            seq = [good, obj] if a["k"] % 2 else (good, obj)
            ctx.raises((ValueError, TypeError), "ctor-wrong-type", lambda: self.cls(observers=seq))
            self.lab.add("ep:ctor_wrong")
        fn = g.add_foil_detector if self.is_camera else g.add_observer
        ctx.raises((ValueError, TypeError), "add-wrong-type", fn, obj)
        if isinstance(obj, Node):
            ctx.check(obj.parent is not g, "add-wrong-type", lambda: "rejected %r became a child of the group" % (obj,))
        self.rejected = True
        self.rej.add(kind)
        self.lab.add("add_wrong")

    def pre_assign(self):
        return self.group is None or bool(self.attrs)

    _FORMS = ["plain", "plain", "integral", "float32", "strided", "plain", "integral", "float32"]

    def do_assign(self, a):
        self._ensure()
        self._used()
        if not self.attrs:
            return
        ctx, g, n = self.ctx, self.group, len(self.members)
        attr = self.attrs[a["a"] % len(self.attrs)]
        spec = SPECS[attr]
        kind = a["kind"]
        if kind == "scalar" and not spec.scalar_ok:
            kind = "list"
        kind = self._seq_kind(attr, kind)
        u, k = a["u"], a["k"]
        what = "%s.%s" % (self.gname, attr)
        if kind == "scalar":
            form = k[2] % 4            # 0, 3: native Python value, 1: numpy scalar, 2: Python int for a float attribute
            held = self._held_scalar(attr, k[3]) if k[0] >= 5 else None     # a value some, but not all, members already hold
            if held is not None:
                v = held[0]
                self.held_sets.add(attr)
                self.lab.add("heldscalar:" + held[1])
            else:
                v = self._value(attr, u[0], k[0], self.mm, integral=(form == 2))
            model_v = v
            if spec.kind == "targets" and k[1] % 2:
                v = tuple(v)
            if form == 1 and spec.kind in ("int", "float", "bool", "ppflag"):
                v = {"int": np.int64, "float": np.float64}.get(spec.kind, np.bool_)(v)
                self.lab.add("form:numpy_scalar")
            if spec.kind == "float" and isinstance(v, int):
                self.lab.add("form:int_for_float")
            with ctx.cut("assign-scalar:" + what):
                setattr(g, attr, v)
            for j in range(n):
                self._apply(j, attr, model_v)
            if spec.kind == "targets" and isinstance(v, list):
                del v[:]               # the caller empties its list afterwards
            self.sets.add((attr, "scalar"))
        else:
            form = self._FORMS[k[6] % 8]
            vals = self._elements(attr, u, k, n, form)
            if k[4] >= 6 and n >= 2 and spec.kind != "ppflag":
                # the members' current values, except for one element
                e = k[3] % n
                cur = [self._held_value(attr, j) if spec.scalar_ok else
                       (self.mm[j]["names"] if attr == "names" else list(self.mm[j]["pipelines"])) for j in range(n)]
                if all(c is not None for c in cur):
                    vals = [vals[j] if j == e else cur[j] for j in range(n)]
                    form = "plain"
                    self.lab.add("seq:current_except_one")
            seq, vals = self._container(attr, vals, kind, form)
            if spec.kind == "float" and any(isinstance(x, int) for x in vals):
                self.lab.add("form:int_for_float")
            snap = self._freeze(seq)
            with ctx.cut("assign-%s:%s" % (kind, what)):
                setattr(g, attr, seq)
                if k[5] == 6:          # the same container object is handed over a second time
                    setattr(g, attr, seq)
                    self.lab.add("reuse:container_twice")
            ctx.check(self._unchanged(seq, snap), "caller-data:" + what,
                      lambda: "the %s passed to group.%s was modified by the setter: %s" % (kind, attr, self._show(seq)))
            for j in range(n):
                self._apply(j, attr, vals[j])
            self._scramble(seq)        # the invariant that follows must still see the assigned values
            if n >= 2:
                want = [self._expected(j, attr) for j in range(n)]
                if any(not self._same(spec.kind, _as_got(spec.kind, want[j]), want[0]) for j in range(1, n)):
                    self.nt_distinct = True
                elif spec.kind in ("int", "float", "bool", "str"):
                    self.lab.add("value:all_equal")
            self.sets.add((attr, "seq"))
        if n >= 1:
            self.n_changes += 1
        self.kinds.add(kind)

    pre_assign_wrong = pre_assign

    def do_assign_wrong(self, a):
        self._ensure()
        if not self.attrs:
            return
        ctx, g, n = self.ctx, self.group, len(self.members)
        attr = self.attrs[a["a"] % len(self.attrs)]
        cands = sorted({L for L in (0, n - 1, n + 1) if L >= 0 and L != n})
        L = cands[a["k"][7] % len(cands)]
        kind = self._seq_kind(attr, a["kind"])
        u, k = a["u"], a["k"]
        form = self._FORMS[k[6] % 8]
        vals = self._elements(attr, u, k, L, form)
        seq, _ = self._container(attr, vals, kind, form)
        snap = self._freeze(seq)
        what = "%s.%s" % (self.gname, attr)
        ctx.raises((ValueError,), "wrong-length:" + what, setattr, g, attr, seq)
        ctx.check(self._unchanged(seq, snap), "caller-data:" + what,
                  lambda: "the %s passed to group.%s was modified by the rejecting setter: %s" % (kind, attr, self._show(seq)))
        # the model is unchanged: the invariant that follows verifies that nothing was modified
        self.wrongs.add(attr)
        self.kinds.add("wrong:" + kind)
        self.lab.add("wrong_len:" + ("0" if L == 0 else ("n-1" if L == n - 1 else "n+1")))
        if self.n_changes:
            self.nt_wrong_after = True

    def pre_edit(self):
        return self.group is None or (bool(self.attrs) and len(self.members) >= 1)

    def do_edit(self, a):
        """the caller edits one member directly (member.attr = v); the group must report it and later broadcasts must
        still reach every member"""
        self._ensure()
        if not self.attrs or not self.members:
            return
        self._used()
        attr = self.attrs[a["a"] % len(self.attrs)]
        j = a["k"][3] % len(self.members)
        v = self._value(attr, a["u"][0], a["k"][0], [self.mm[j]])
        setattr(self.members[j], SPECS[attr].member_attr or attr, v)     # member-level setter: trusted
        self._apply(j, attr, v)
        self.lab.add("member_edit")

    def pre_rename(self):
        return self.group is None or len(self.members) >= 1

    def do_rename(self, a):
        self._ensure()
        self._used()
        if not self.members:
            return
        j = a[0] % len(self.members)
        new = NAME_POOL[a[1]]
        self.members[j].name = new
        self.mm[j]["names"] = new
        self.lab.add("rename")

    def do_replace(self, a):
        self._ensure()
        self._used()
        ctx, g, n = self.ctx, self.group, len(self.members)
        order = []
        for i in a["perm"]:
            if n and (i % n) not in order:
                order.append(i % n)
        order = order[:max(0, min(n, a["keep"]))]
        new_members = [self.members[i] for i in order]
        new_mm = [self.mm[i] for i in order]
        attr = "foil_detectors" if self.is_camera else ("sight_lines" if hasattr(g, "sight_lines") and a["m"]["k"] % 2 else "observers")
        as_list = self.is_camera or a["m"]["k"] % 4 < 2
        if a["mode"] == "wrong":
            bad = new_members + [self._new_member(a["m"], accepted=False)]
            seq = bad if as_list else tuple(bad)
            ctx.raises((ValueError, TypeError), "replace-wrong-type", setattr, g, attr, seq)
            self.rejected = True
            self.lab.add("replace_wrong")
            return
        if a["mode"] == "new" and len(new_members) < 5:
            m = self._new_member(a["m"], accepted=True)
            new_mm.append(self._snapshot(m))
            new_members.append(m)
        seq = list(new_members) if as_list else tuple(new_members)
        with ctx.cut("replace-members"):
            setattr(g, attr, seq)
        ctx.check(len(seq) == len(new_members) and all(x is y for x, y in zip(seq, new_members)), "caller-data:" + attr,
                  lambda: "the container assigned to group.%s was modified by the setter" % attr)
        self.members, self.mm = new_members, new_mm
        if isinstance(seq, list):
            # the caller goes on using its own list: the group must hold its own container
            seq.append(self._build(OBS_KINDS[0] if not self.is_camera else "node", dict(a["m"], name=-1)))
            seq.reverse()
            del seq[2:]
            self.lab.add("caller_edits_member_list")
        self.lab.add("replace")
        self.lab.add("ep:%s_set:%s" % (attr, "list" if as_list else "tuple"))

    def do_index(self, a):
        self._ensure()
        ctx, g, n = self.ctx, self.group, len(self.members)
        mode = a["mode"]
        if mode == "iter":
            with ctx.cut("iterate"):
                got = list(g)           # BolometerCamera.__iter__ / sequence protocol of Observer0DGroup (used by in-repo tests)
            ctx.check(len(got) == n and all(x is y for x, y in zip(got, self.members)), "iterate",
                      lambda: "iterating the group yields %s, members are %s" % ([getattr(x, "name", x) for x in got], [m.name for m in self.members]))
            if hasattr(g, "sight_lines"):
                with ctx.cut("sight_lines"):
                    sl = g.sight_lines
                ctx.check(len(sl) == n and all(x is y for x, y in zip(sl, self.members)), "sight_lines", "group.sight_lines differs from the members")
            self.idx.add("iter")
        elif mode == "int" and n:
            j = a["i"] % (2 * n) - n          # -n .. n-1
            with ctx.cut("index:int"):
                got = g[j]
            ctx.check(got is self.members[j], "index:int", lambda: "group[%d] is %r, expected member %r" % (j, got, self.members[j].name))
            self.idx.add("int")
        elif mode in ("oob", "int"):
            j = n + a["i"] % 3 if a["i"] % 2 else -n - 1 - a["i"] % 3
            ctx.raises((IndexError,), "index:out-of-range", g.__getitem__, j)
            self.idx.add("oob")
        elif mode == "slice":
            if self.is_camera:
                self.idx.add("slice_not_documented")
                return
            s = [None if x is None else int(x) for x in a["s"]]
            if s[2] == 0:
                s[2] = None
            sl = slice(*s)
            with ctx.cut("index:slice"):
                got = g[sl]
            want = tuple(self.members)[sl]
            ctx.check(isinstance(got, (tuple, list)) and len(got) == len(want) and all(x is y for x, y in zip(got, want)), "index:slice",
                      lambda: "group[%r] returns %d members %s, expected %s" % (sl, len(got), [x.name for x in got], [x.name for x in want]))
            self.idx.add("slice")
        else:
            name = (NAME_POOL + ["", ""])[a["i"] % 10]
            if name == "":
                self.idx.add("name_empty")
            hits = [m for m, mm in zip(self.members, self.mm) if mm["names"] == name]
            if len(hits) == 1:
                with ctx.cut("index:name"):
                    got = g[name]
                ctx.check(got is hits[0], "index:name", lambda: "group[%r] is %r (name %r), not the member carrying that name"
                          % (name, got, getattr(got, "name", None)))
                self.idx.add("name_unique")
                self.cam_named = True
            elif not hits:
                ctx.raises((ValueError, LookupError), "index:name-missing", g.__getitem__, name)
                self.idx.add("name_missing")
            elif self.is_camera:
                with ctx.cut("index:name"):
                    got = g[name]
                ctx.check(any(got is h for h in hits), "index:name-dup", lambda: "group[%r] returned %r which does not carry that name" % (name, got))
                self.idx.add("name_dup")
            else:
                ctx.raises((ValueError,), "index:name-dup", g.__getitem__, name)
                self.idx.add("name_dup")

    def do_observe(self, a):
        self._ensure()
        self._used()
        ctx, n = self.ctx, len(self.members)
        with ctx.cut("observe"):
            r = self.group.observe()
        for mm in self.mm:
            mm["count"] += 1
        if self.is_camera:
            ctx.check(isinstance(r, list) and len(r) == n, "observe", lambda: "BolometerCamera.observe() returned %r for %d foils" % (r, n))
            if n >= 2:
                self.cam_observed2 = True
        self.lab.add("observe" if n else "observe_empty")

    def do_reread(self, a):
        """every group-level getter is read, the returned list is edited by the caller; the invariant that follows reads
        everything again (no aliasing between what a getter returns and the group's / members' state)."""
        self._ensure()
        ctx, g = self.ctx, self.group
        names = list(self.attrs) + (["foil_detectors", "slits"] if self.is_camera else [])
        for attr in names:
            with ctx.cut("getter:%s.%s" % (self.gname, attr)):
                first = getattr(g, attr)
                second = getattr(g, attr)
            if isinstance(first, list):
                ctx.check(first is not second, "getter-alias:%s.%s" % (self.gname, attr), "two reads return the same list object")
                first.append(None)
                first.reverse()
                for x in second:
                    if isinstance(x, list):
                        x.append(None)
        self.lab.add("reread")

    def pre_connect(self):
        return self.group is None or not self.is_camera

    def do_connect(self, a):
        """connect_pipelines(): every member gets its own new pipelines of the given classes (documented); the model takes the
        new pipeline objects from the members, the invariant then checks group.pipelines / display_progress / accumulate."""
        self._ensure()
        self._used()
        if self.is_camera or "pipelines" not in self.attrs:
            return
        ctx, g, n = self.ctx, self.group, len(self.members)
        classes = [PIPELINE_CLASSES[(a["k"][i] + i) % 4] for i in range(1 + a["k"][7] % 3)]
        names = [None if a["k"][i] % 2 else "p%d" % i for i in range(len(classes))]
        spec_sig = isinstance(g, (SpectroscopicSightLineGroup, SpectroscopicFibreOpticGroup))
        suppress = True
        with ctx.cut("connect_pipelines"):
            if spec_sig:
                if a["k"][6] == 0:
                    classes, names = [SpectralRadiancePipeline0D], [None]
                    g.connect_pipelines()
                else:
                    g.connect_pipelines([(c, nm, None) for c, nm in zip(classes, names)])
                self.lab.add("ep:connect_pipelines:spectroscopic")
            else:
                suppress = a["k"][6] % 2 == 0
                kws = [dict() if nm is None else {"name": nm} for nm in names]
                if a["k"][5] % 3 == 0 and all(nm is None for nm in names):
                    g.connect_pipelines(classes) if suppress else g.connect_pipelines(classes, suppress_display_progress=False)
                elif a["k"][5] % 3 == 1:
                    g.connect_pipelines(pipeline_classes=classes, keywords_list=kws, suppress_display_progress=suppress)
                else:
                    g.connect_pipelines(classes, kws, suppress)
                self.lab.add("ep:connect_pipelines:base")
        seen = set()
        for j, m in enumerate(self.members):
            with ctx.cut("connect_pipelines:read"):
                pl = tuple(m.pipelines)
            ctx.check(len(pl) == len(classes) and all(type(p) is c for p, c in zip(pl, classes)), "connect_pipelines",
                      lambda: "member %d has pipelines %s, requested classes %s" % (j, [type(p).__name__ for p in pl], [c.__name__ for c in classes]))
            for p, nm in zip(pl, names):
                ctx.check(id(p) not in self.pstate and id(p) not in seen, "connect_pipelines", "a pipeline object is shared or re-used")
                seen.add(id(p))
                ctx.check(nm is None or p.name == nm, "connect_pipelines", lambda: "pipeline name %r, requested %r" % (p.name, nm))
                if isinstance(p, SpectralPowerPipeline0D) and (spec_sig or suppress):
                    ctx.check(p.display_progress is False, "connect_pipelines", "display_progress not suppressed")
                if spec_sig:
                    ctx.check(p.accumulate is False, "connect_pipelines", "spectroscopic groups connect non-accumulating pipelines")
            self.mm[j]["pipelines"] = pl
            self._register(pl)


def _as_got(kind, want):
    """turn a model value into something Hist._same accepts on its `got` side (points are compared as objects)."""
    if kind in ("point", "vector"):
        return Vector3D(*want)
    return want


_SEQ = ["list", "tuple", "ndarray"]
Hist.OPS = {
    "member_add": member_args,       # (named so that "assign" sorts first: Hypothesis shrinks towards the first rule)
    "member_add_wrong": member_args,
    "assign": _assign_args(["scalar", "list", "tuple", "ndarray"]),
    "assign_b": _assign_args(["scalar", "list", "tuple", "ndarray"]),
    "assign_c": _assign_args(["list", "tuple", "ndarray"]),
    "assign_d": _assign_args(["scalar", "list"]),
    "assign_wrong": _assign_args(_SEQ),
    "assign_wrong_b": _assign_args(_SEQ),
    "rename": lambda: st.tuples(st.integers(0, 4), st.integers(0, 7)),
    "replace": lambda: st.fixed_dictionaries({"perm": st.lists(st.integers(0, 4), min_size=0, max_size=6), "keep": st.integers(0, 5),
                                              "mode": st.sampled_from(["perm", "new", "new", "wrong"]), "m": member_args()}),
    "index": lambda: st.fixed_dictionaries({"mode": st.sampled_from(["int", "oob", "slice", "name", "name", "iter"]), "i": st.integers(0, 63),
                                            "s": st.tuples(st.one_of(st.none(), st.integers(-6, 6)), st.one_of(st.none(), st.integers(-6, 6)),
                                                           st.one_of(st.none(), st.integers(-3, 3)))}),
    "observe": lambda: st.just(0),
    "reread": lambda: st.just(0),
    "switch": lambda: st.just(0),
    "edit": _assign_args(["scalar"]),
    "edit_b": _assign_args(["scalar"]),
    "connect": lambda: st.fixed_dictionaries({"k": _ks}),
}
for _alias, _target in (("edit_b", "edit"), ("assign_b", "assign"), ("assign_c", "assign"), ("assign_d", "assign"),
                        ("assign_wrong_b", "assign_wrong")):
    setattr(Hist, "do_" + _alias, getattr(Hist, "do_" + _target))
    setattr(Hist, "pre_" + _alias, getattr(Hist, "pre_" + _target))


# ------------------------------------------------------------------------------------------------ large groups
# Deterministic pass over group sizes around and beyond CPython's small-int cache (-5..256) and other size cliffs: every
# broadcast attribute of every class gets list / tuple / ndarray of exactly the group length (accepted, read back member by
# member), of length n-1 and n+1 (ValueError, nothing changed) and a scalar.  One set of n cheap members (no world, default
# pipelines) is built per case and re-used for all attributes.
LARGE_SIZES = [255, 256, 257, 300, 1000]


def large_cases(tier):
    out = []
    for gi, g in enumerate(GROUP_NAMES):
        for si, n in enumerate(LARGE_SIZES):
            if g == "BolometerCamera" and n not in (257, 1000):
                continue
            out.append({"group": g, "n": n, "build": ["ctor_list", "add", "ctor_tuple", "setter"][(gi + si) % 4]})
    return out


def _large_seq(attr, n, salt, shared):
    """n valid element values for fresh (default) members; `salt` makes successive assignments differ."""
    kind = SPECS[attr].kind
    J = range(n)
    if attr == "names":
        return ["" if j == 3 + salt else "m%d_%d" % (salt, j) for j in J]      # one member is un-named through the group
    if kind == "engine":
        return [SerialEngine() for _ in J]
    if kind == "pipelines":
        return [[(SpectralRadiancePipeline0D if (j + salt) % 2 else PowerPipeline0D)(accumulate=False)] for j in J]
    if kind == "targets":
        return [[shared["sphere"], Sphere()] if (j + salt) % 2 else [Sphere()] for j in J]
    if kind == "point":
        return [Point3D(0.001 * j, float(salt), -1.0) for j in J]
    if kind == "vector":
        return [Vector3D(1.0 + 0.001 * j, 0.5, 0.1 + 0.25 * salt) for j in J]
    if kind in ("bool", "ppflag"):
        return [(j + salt) % 3 == 0 for j in J]
    table = {
        "spectral_bins": lambda j: 20 + (j + salt) % 50, "spectral_rays": lambda j: 1 + (j + salt) % 5,
        "ray_max_depth": lambda j: (j + 7 * salt) % 300, "ray_extinction_min_depth": lambda j: (j + salt) % 7,
        "pixel_samples": lambda j: 1 + j + salt, "samples_per_task": lambda j: 1 + (3 * j + salt) % 1000,
        "min_wavelength": lambda j: 100.0 + 0.1 * j + salt, "max_wavelength": lambda j: 900.0 + 0.01 * j + salt,
        "ray_extinction_prob": lambda j: ((j + salt) % 101) / 100.0, "ray_important_path_weight": lambda j: ((j + 3 * salt) % 101) / 100.0,
        "targetted_path_prob": lambda j: ((2 * j + salt) % 101) / 100.0, "sensitivity": lambda j: 0.5 + 0.01 * j + salt,
        "acceptance_angle": lambda j: 1.0 + ((j + salt) % 890) / 10.0, "radius": lambda j: 1e-3 * (1 + j) + 1e-4 * salt,
        "x_width": lambda j: 2e-3 * (1 + j) + 1e-4 * salt, "y_width": lambda j: 3e-3 * (1 + j) + 1e-4 * salt,
    }
    return [table[attr](j) for j in J]


def _large_scalar(attr, shared):
    kind = SPECS[attr].kind
    if kind == "engine":
        return SerialEngine()
    if kind == "targets":
        return [shared["sphere"]]
    if kind == "point":
        return Point3D(1.5, -2.5, 3.5)
    if kind == "vector":
        return Vector3D(0.0, 3.0, 4.0)
    if kind in ("bool", "ppflag"):
        return True
    return {"spectral_bins": 60, "spectral_rays": 1, "ray_max_depth": 257, "ray_extinction_min_depth": 2, "pixel_samples": 1000,
            "samples_per_task": 257, "min_wavelength": 50.0, "max_wavelength": 2000.0, "ray_extinction_prob": 0.25,
            "ray_important_path_weight": 0.75, "targetted_path_prob": 1.0, "sensitivity": 2.5, "acceptance_angle": 90.0,
            "radius": 0.125, "x_width": 0.375, "y_width": 0.625}[attr]


def _large_model(attr, v):
    """what a member must report after `member.attr = v`, except for the per-pipeline flags (computed from the member)."""
    kind = SPECS[attr].kind
    if kind in ("pipelines", "targets"):
        return tuple(v)
    if kind == "point":
        return (v.x, v.y, v.z)
    if kind == "vector":
        w = v.normalise()
        return (w.x, w.y, w.z)
    return v


def run_large(case, ctx):
    gname, n = case["group"], int(case["n"])
    cls, mtype = GROUPS[gname]
    is_camera = gname == "BolometerCamera"
    ctx.label("class:" + gname, "n:%d" % n, "build:" + case["build"])
    ctx.nt(True)
    shared = {"sphere": Sphere()}
    # ---- members (cheap: no world, constructor defaults) and group
    if is_camera:
        with ctx.cut("construct"):
            g = cls(name="camera")
        slit = BolometerSlit("slit", Point3D(0, 0, 0), Vector3D(1, 0, 0), 0.0025, Vector3D(0, 1, 0), 0.005, parent=g)
        members = [OBS_CLS["foil"]("f%d" % j, Point3D(1e-5 * j, 0, -0.08), Vector3D(1, 0, 0), 0.0025, Vector3D(0, 1, 0), 0.005, slit)
                   for j in range(n)]
        with ctx.cut("add"):
            if case["build"] == "setter":
                g.foil_detectors = list(members)
            else:
                for m in members:
                    g.add_foil_detector(m)
    else:
        kind = [k for k in accepted_kinds(gname) if OBS_BASE[k] is mtype][0]
        C = OBS_CLS[kind]
        members = [C([shared["sphere"]], name="f%d" % j) if kind == "targettedpixel" else C(name="f%d" % j) for j in range(n)]
        with ctx.cut("construct"):
            if case["build"] == "ctor_list":
                g = cls(name="group", observers=list(members))
            elif case["build"] == "ctor_tuple":
                g = cls(name="group", observers=tuple(members))
            elif case["build"] == "setter":
                g = cls(name="group")
                g.observers = list(members)
            else:
                g = cls(name="group")
                for m in members:
                    g.add_observer(m)

    def check_members(what):
        with ctx.cut("members"):
            real = tuple(g.foil_detectors) if is_camera else tuple(g.observers)
            ln = len(g)
        ctx.check(ln == n and len(real) == n and all(a is b for a, b in zip(real, members)), "large:members",
                  lambda: "%s of %d: group holds %d members / len %d (%s)" % (gname, n, len(real), ln, what))
        ctx.check(all(m.parent is g for m in members), "large:parent", "%s of %d: a member's parent is not the group (%s)" % (gname, n, what))

    check_members("after construction")
    # ---- retrieval at large indices
    with ctx.cut("index"):
        got = [g[0], g[n - 1], g[-1], g[254], g[-n], g["f%d" % (n - 1)], g["f254"]]
        it = list(g)
    want = [members[0], members[n - 1], members[n - 1], members[254], members[0], members[n - 1], members[254]]
    ctx.check(all(a is b for a, b in zip(got, want)), "large:index", "%s of %d: int / name lookup returned a wrong member" % (gname, n))
    ctx.check(len(it) == n and all(a is b for a, b in zip(it, members)), "large:iterate", "%s of %d: iteration differs from the members" % (gname, n))
    ctx.raises((IndexError,), "large:index", g.__getitem__, n)
    if not is_camera:
        with ctx.cut("index"):
            sl = g[250:n:3]
        ctx.check(len(sl) == len(members[250:n:3]) and all(a is b for a, b in zip(sl, members[250:n:3])), "large:slice",
                  "%s of %d: slice differs" % (gname, n))
    with ctx.cut("observe"):
        g.observe()
    ctx.check(all(getattr(m, "vf_observed", 0) == 1 for m in members), "large:observe", "%s of %d: not every member observed exactly once" % (gname, n))
    if is_camera:
        with ctx.cut("replace-members"):
            g.foil_detectors = list(reversed(members))
        members.reverse()
        check_members("after foil_detectors = reversed list")
        return
    # ---- every broadcast attribute
    props = class_properties(cls)
    attrs = [a for a in sorted(set(props) | set(DOCUMENTED[gname])) if a in SPECS]

    def expected(attr, model_vals):
        kind = SPECS[attr].kind
        if kind != "ppflag":
            return model_vals
        out = []
        for m, v in zip(members, model_vals):
            if attr == "display_progress":
                out.append([v if isinstance(p, SpectralPowerPipeline0D) else None for p in m.pipelines])
            else:
                out.append([v if isinstance(p, (PowerPipeline0D, SpectralPowerPipeline0D)) else None for p in m.pipelines])
        return out

    def check_attr(attr, model_vals, what):
        kind = SPECS[attr].kind
        want = expected(attr, model_vals)
        mattr = SPECS[attr].member_attr or attr
        with ctx.cut("large:read:%s.%s" % (gname, attr)):
            got = [getattr(m, mattr) for m in members]
            lst = getattr(g, attr)
        bad = [j for j in range(n) if not Hist._same(kind, got[j], want[j])]
        ctx.check(not bad, "large:member:%s.%s" % (gname, attr),
                  lambda: "group of %d, %s: member %d has %s = %s, expected %s (%d members differ)"
                  % (n, what, bad[0], attr, Hist._show(got[bad[0]]), Hist._show(want[bad[0]]), len(bad)))
        ok = isinstance(lst, (list, tuple)) and len(lst) == n and all(Hist._same(kind, a, b) for a, b in zip(lst, want))
        ctx.check(ok, "large:getter:%s.%s" % (gname, attr), lambda: "group of %d, %s: group.%s does not return the members' values in order" % (n, what, attr))

    salt = 0
    for attr in attrs:
        spec = SPECS[attr]
        what = "%s.%s" % (gname, attr)
        kinds = ["list", "tuple"] + (["ndarray"] if spec.numeric and setter_names_ndarray(props.get(attr)) else [])
        model_vals = None
        for kind in kinds:
            salt += 1
            vals = _large_seq(attr, n, salt, shared)
            if kind == "ndarray":
                seq = np.array(vals, dtype={"int": np.int64, "float": np.float64}.get(spec.kind, np.bool_))
            elif kind == "tuple":
                seq = tuple(vals)
            else:
                seq = list(vals)
            with ctx.cut("large:assign-%s:%s" % (kind, what)):
                setattr(g, attr, seq)
            model_vals = [_large_model(attr, v) for v in vals]
            check_attr(attr, model_vals, "%s of exactly group length" % kind)
            ctx.label("seq:%s.%s" % (gname, attr), "kind:" + kind)
        for i, L in enumerate((n - 1, n + 1)):
            salt += 1
            vals = _large_seq(attr, L, salt, shared)
            kind = kinds[(i + len(attr)) % len(kinds)]
            seq = np.array(vals, dtype={"int": np.int64, "float": np.float64}.get(spec.kind, np.bool_)) if kind == "ndarray" else \
                (tuple(vals) if kind == "tuple" else vals)
            ctx.raises((ValueError,), "large:wrong-length:" + what, setattr, g, attr, seq)
            check_attr(attr, model_vals, "after a rejected %s of length %d" % (kind, L))
            ctx.label("wrong:" + ("n-1" if L < n else "n+1"))
        if spec.scalar_ok:
            v = _large_scalar(attr, shared)
            with ctx.cut("large:assign-scalar:" + what):
                setattr(g, attr, v)
            check_attr(attr, [_large_model(attr, v)] * n, "scalar")
            ctx.label("scalar:%s.%s" % (gname, attr))
    check_members("after all assignments")


def _required():
    out = []
    for g in GROUP_NAMES:
        out.append("hist:class:" + g)
        ex = set(excluded_for(g))
        for a in DOCUMENTED[g]:
            if a not in ex:
                out.append("hist:set:%s.%s" % (g, a))
                out.append("hist:setseq:%s.%s" % (g, a))
                if SPECS[a].scalar_ok:
                    out.append("hist:setscalar:%s.%s" % (g, a))
                    out.append("hist:heldscalar:%s.%s" % (g, a))      # scalar = value held by some, not all, members
                out.append("hist:wrong:%s.%s" % (g, a))
                if a in Hist.FALSY:
                    out.append("hist:falsy:%s.%s" % (g, a))          # falsy-but-valid value ('' / 0 / 0.0 / False) over a truthy one
        for kk in rejected_kinds(g):
            out.append("hist:reject:%s.%s" % (g, kk))
    out += ["hist:kind:scalar", "hist:kind:list", "hist:kind:tuple", "hist:kind:ndarray",
            "hist:kind:wrong:list", "hist:kind:wrong:tuple", "hist:kind:wrong:ndarray",
            "hist:wrong_len:0", "hist:wrong_len:n-1", "hist:wrong_len:n+1",
            "hist:index:int", "hist:index:oob", "hist:index:slice", "hist:index:name_unique", "hist:index:name_missing",
            "hist:index:name_dup", "hist:index:iter", "hist:add_wrong", "hist:add:subclass", "hist:replace", "hist:replace_wrong",
            "hist:rename", "hist:observe", "hist:size:0", "hist:size:5",
            # input forms / magic values / re-use / caller-owned data
            "hist:form:dtype:float64", "hist:form:dtype:float32", "hist:form:dtype:int64", "hist:form:dtype:int32",
            "hist:form:dtype:bool", "hist:form:dtype:int8", "hist:form:strided", "hist:form:numpy_scalar", "hist:form:int_for_float",
            "hist:value:default", "hist:value:boundary", "hist:value:current", "hist:value:all_equal",
            "hist:reuse:container_twice", "hist:reread", "hist:caller_edits_member_list", "hist:tail", "hist:shared_slit",
            "hist:ctor:keyword", "hist:ctor:positional", "hist:ctor:keyword:no_parent", "hist:ctor:positional:transform",
            # entry points of the anchored files
            "hist:ep:add_observer", "hist:ep:add_sight_line", "hist:ep:add_foil_detector", "hist:ep:ctor_observers:list",
            "hist:ep:ctor_observers:tuple", "hist:ep:ctor_wrong", "hist:ep:observers_set:list", "hist:ep:observers_set:tuple",
            "hist:ep:sight_lines_set:list", "hist:ep:sight_lines_set:tuple", "hist:ep:foil_detectors_set:list",
            "hist:ep:connect_pipelines:base", "hist:ep:connect_pipelines:spectroscopic",
            # two groups of the same class alive at once / repeated calls
            "hist:second:built", "hist:second:built_before_first_use", "hist:interference",
            "hist:interference:first_group_used_after_second", "hist:repeat:held_results", "hist:repeat:same_call_twice", "hist:ctor:bare",
            "hist:member:default_pipelines",
            "hist:falsy:seq", "hist:falsy:scalar", "hist:falsy:name_lookup", "hist:falsy:empty_name", "hist:index:name_empty",
            "hist:heldscalar:first", "hist:heldscalar:last", "hist:heldscalar:middle", "hist:seq:current_except_one", "hist:member_edit"]
    if "member:irvb" not in excluded_for("BolometerCamera"):
        out.append("hist:member:irvb")
    # large groups
    for n in LARGE_SIZES:
        out.append("large:n:%d" % n)
    for g in GROUP_NAMES:
        out.append("large:class:" + g)
        for a in DOCUMENTED[g]:
            out.append("large:seq:%s.%s" % (g, a))
            if SPECS[a].scalar_ok:
                out.append("large:scalar:%s.%s" % (g, a))
    out += ["large:kind:list", "large:kind:tuple", "large:kind:ndarray", "large:wrong:n-1", "large:wrong:n+1",
            "large:build:ctor_list", "large:build:ctor_tuple", "large:build:add", "large:build:setter"]
    return out


REQUIRED_LABELS = _required()

SUBCHECKS = {
    "large": Enum(large_cases, run_large),
    "hist": Machine(Hist, quick=1600, thorough=16000, steps=(20, 30), params=hist_params),
}
