"""C05 - beam CX emission is a population-weighted mean of metastable-resolved coefficients, beam emission a
charge-weighted sum; both evaluated in the donor/target interaction frame and both zero without beam or receiver."""
import math

import numpy as np
from hypothesis import strategies as st

from raysect.core import Point3D, Vector3D
from raysect.optical import Spectrum

from cherab.core import Plasma, Species, Maxwellian, Beam, Line
from cherab.core.atomic import elements as EL
from cherab.core.model import BeamCXLine, BeamEmissionLine, ZeemanTriplet

from ..core import Given
from ..mocks_beam import BeamRates, MockBeamAtomicData, MockBeamAttenuator, beam_density

ID = "C05"
RULE = ("Case = scene-free Plasma (1-4 distinct ion species with Z>=1 drawn from H/D/T/He/Li/Be/C/N/Ne/Ar charge states, "
        "0-2 neutrals, each with density (0 or 1e16..1e21, exponential gradient), temperature (1..5e3 eV, gradient), flow "
        "(0 or up to 2e6 m/s per component); B = B0 (1 + g.r), incl. B = 0) x Beam (H/D/T[/He] at 1e3..1.5e5 eV/amu, "
        "un-normalised direction, density from the Python attenuator mock: zero / uniform / Gaussian-exponential, beam point "
        "inside or outside 0<=z<=length) x atomic data mock (1-4 donor metastables returned in a drawn order; every rate a "
        "distinct power-law-like function of all its arguments, selected by a seed) x receiver line / Balmer-alpha x "
        "spectral window (1..40 bins, +-6..10 % around the natural wavelength). model.emission() is called directly with "
        "distinct beam-space and plasma-space points. Non-trivial: beam density > 0 and >= 2 ion species with non-zero "
        "density AND non-zero flow, plus for CX >= 2 donor metastables and receiver density > 0; distinct by case hash.")
ASSUMPTIONS = ["the analytic mock rates are the 'individual coefficients' of the statement; the mock classes are trusted",
               "relative beam populations k_m are the charge-density weighted means of the per-species population "
               "coefficients, each at the donor/species interaction energy, sum_j Z_j^2 n_j / Z_i and T_i (anchor "
               "_beam_population)",
               "e / amu: the package documents CODATA 2018; CODATA 2022 differs by 1.4e-9 in amu - either is accepted "
               "(interval oracle)",
               "'total ion density': the statement does not say whether neutral atoms of the composition count; both the sum "
               "over charge>=1 species and Plasma.ion_density's documented sum over all species are accepted (labelled)",
               "the default line shapes put the whole radiance inside a window that contains the line (verified by C02); "
               "temperatures > 0, electron density / temperature > 0 (needed by the Stark multiplet shape)"]
TOLERANCES = {
    "totals": "1e-9 relative (same double arithmetic on both sides: a few dozen roundings, erf differences of the Gaussian "
              "bins telescope) + |oracle(CODATA 2018) - oracle(CODATA 2022)| (constants interval)",
    "arguments seen by the rates": "1e-9 relative, for E_int relative to max(E_int, E_beam, 0.5 amu u^2 / e) because "
                                   "|v_beam - u|^2 cancels",
    "bounds min q_i <= q <= max q_i": "1e-9 relative slack on both ends",
    "second call into the same spectrum doubles it": "1e-12 relative to the largest sample",
    "zero beam / receiver density": "exact zeros",
}
REQUIRED_LABELS = ["cx:zero:beam", "cx:zero:receiver", "cx:meta:1", "cx:meta:>=2", "cx:neutrals", "cx:nt",
                   "bes:zero:beam", "bes:zero:ions", "bes:neutrals", "bes:nt"]

C_LIGHT = 299792458.0
E_CH = 1.602176634e-19
AMU_2018 = 1.66053906660e-27
AMU_2022 = 1.66053906892e-27

# (element name, atomic number)
POOL = [("hydrogen", 1), ("deuterium", 1), ("tritium", 1), ("helium", 2), ("lithium", 3), ("beryllium", 4),
        ("carbon", 6), ("nitrogen", 7), ("neon", 10), ("argon", 18)]
ZMAX = dict(POOL)


# ----------------------------------------------------------------------------------------------- strategy
def _logu(lo, hi):
    return st.floats(math.log10(lo), math.log10(hi)).map(lambda e: float(10.0 ** e))


@st.composite
def _rare(draw, options):
    """Pick a label with stated probabilities. options = [(p, label), ...] for the rare classes (sum p < 0.37); returns
    None for the common class. (one_of / sampled_from over-weight their first entries; a float threshold does not, and
    the boundary values 0.0 / 1.0, which Hypothesis likes, are mapped into the common class.)"""
    u = (draw(st.floats(0.0, 1.0)) + 0.37) % 1.0
    acc = 0.0
    for p, label in options:
        acc += p
        if u < acc:
            return label
    return None


_vec = lambda a: st.lists(st.floats(-a, a), min_size=3, max_size=3)   # noqa: E731


@st.composite
def _grad(draw):
    return [0.0, 0.0, 0.0] if draw(_rare([(0.2, "flat")])) else draw(_vec(0.5))


@st.composite
def _flow(draw):
    kind = draw(_rare([(0.12, "rest"), (0.2, "slow")]))
    return [0.0, 0.0, 0.0] if kind == "rest" else draw(_vec(2e5)) if kind == "slow" else draw(_vec(2e6))


@st.composite
def _species(draw, el, q):
    dens = 0.0 if draw(_rare([(0.1, "absent")])) else draw(st.one_of(_logu(1e16, 1e21), _logu(1e18, 1e20)))
    return {"el": el, "q": q, "n": dens, "gn": draw(_grad()), "T": draw(st.one_of(_logu(1.0, 5e3), _logu(10.0, 3e3))),
            "gT": draw(_grad()), "v": draw(_flow())}


@st.composite
def _plasma(draw):
    nion = {"one": 1, "two": 2, "four": 4, None: 3}[draw(_rare([(0.1, "one"), (0.15, "four"), (0.1, "two")]))]
    nion = draw(st.integers(1, 4)) if draw(st.booleans()) else nion
    seen, sp = set(), []
    for _ in range(nion):
        el = draw(st.sampled_from([p[0] for p in POOL]))
        q = draw(st.one_of(st.integers(1, ZMAX[el]), st.just(ZMAX[el])))
        if (el, q) in seen:
            continue
        seen.add((el, q))
        sp.append(draw(_species(el, q)))
    nneut = {"one": 1, "two": 2, None: 0}[draw(_rare([(0.2, "one"), (0.1, "two")]))]
    for _ in range(nneut):
        el = draw(st.sampled_from([p[0] for p in POOL]))
        if (el, 0) in seen:
            continue
        seen.add((el, 0))
        sp.append(draw(_species(el, 0)))
    sp = draw(st.permutations(sp))
    return {"species": list(sp),
            "B": [0.0, 0.0, 0.0] if draw(_rare([(0.08, "unmagnetised")])) else draw(_vec(4.0)),
            "gB": draw(_vec(0.3)),
            "ne": draw(_logu(1e17, 1e21)), "te": draw(_logu(1.0, 1e4))}


@st.composite
def _beam(draw, elements):
    length = draw(st.floats(0.5, 5.0))
    where = draw(_rare([(0.03, -0.01), (0.03, 1.01), (0.02, -2.0), (0.02, 3.0), (0.03, 0.0), (0.03, 1.0)]))
    z = draw(st.floats(0.0, 1.0)) if where is None else where
    kind = draw(_rare([(0.08, "zero"), (0.25, "uniform")])) or "gauss"
    if kind == "zero":
        dens = {"kind": "zero"}
    elif kind == "uniform":
        dens = {"kind": "uniform", "n0": draw(_logu(1e12, 1e17))}
    else:
        dens = {"kind": "gauss", "n0": draw(_logu(1e12, 1e17)), "sigma": draw(st.floats(0.02, 0.3)), "decay": draw(st.floats(0.3, 10.0))}
    d = draw(_vec(1.0))
    if math.sqrt(sum(x * x for x in d)) < 1e-2:
        d = [0.0, 0.0, 1.0]
    return {"el": draw(st.sampled_from(elements)), "E": draw(st.one_of(_logu(1e3, 1.5e5), st.floats(1e4, 1.2e5))),
            "T": draw(_logu(0.1, 100.0)), "power": draw(_logu(1e3, 1e7)), "length": length,
            "point": [draw(st.floats(-0.3, 0.3)), draw(st.floats(-0.3, 0.3)), z * length],
            "dens": dens, "dir": d, "dscale": draw(st.sampled_from([1.0, 1.0, 0.01, 37.5]))}


@st.composite
def _common(draw, cx):
    case = {"plasma": draw(_plasma()),
            "beam": draw(_beam(["hydrogen", "deuterium", "tritium", "helium"] if cx else ["hydrogen", "deuterium", "tritium"])),
            "point": draw(_vec(1.0)),
            "obs": draw(_vec(1.0)),
            "win": {"bins": draw(st.integers(1, 40)), "half": draw(st.floats(0.06, 0.1))}}
    if math.sqrt(sum(x * x for x in case["obs"])) < 1e-2:
        case["obs"] = [1.0, 0.0, 0.0]
    nmeta = (draw(_rare([(0.12, 1), (0.15, 4)])) or draw(st.integers(2, 3))) if cx else 1
    case["rates"] = {"seed": draw(st.integers(0, 2 ** 31 - 1)), "metastables": nmeta,
                     "cx_order": list(draw(st.permutations(list(range(nmeta))))),
                     "q0": {"pop": draw(_logu(1e-3, 3.0))}}
    return case


def strategy_cx():
    @st.composite
    def s(draw):
        case = draw(_common(True))
        ions = [i for i, sp in enumerate(case["plasma"]["species"]) if sp["q"] >= 1]
        r = draw(st.sampled_from(ions))
        case["recv"] = r
        up = draw(st.integers(2, 12))
        case["transition"] = [up, draw(st.integers(1, up - 1))]
        case["ls"] = draw(st.sampled_from(["default", "default", "zeeman"]))
        return case
    return s()


def strategy_bes():
    return _common(False)


# ----------------------------------------------------------------------------------------------- building
def _unit(v):
    n = math.sqrt(sum(x * x for x in v))
    return [x / n for x in v]


def _profile(a0, g):
    g0, g1, g2 = g
    if g0 == 0.0 and g1 == 0.0 and g2 == 0.0:
        return lambda x, y, z: a0
    return lambda x, y, z: a0 * math.exp(g0 * x + g1 * y + g2 * z)


def _bfield(pl):
    b0, g = pl["B"], pl["gB"]

    def f(x, y, z):
        s = 1.0 + g[0] * x + g[1] * y + g[2] * z
        return [b0[0] * s, b0[1] * s, b0[2] * s]
    return f


class Built:
    pass


def build(case, log):
    b = Built()
    pl, bm = case["plasma"], case["beam"]
    plasma = Plasma()
    bf = _bfield(pl)
    plasma.b_field = lambda x, y, z: Vector3D(*bf(x, y, z))
    plasma.electron_distribution = Maxwellian(pl["ne"], pl["te"], Vector3D(0, 0, 0), 9.1093837015e-31)
    comp = []
    for sp in pl["species"]:
        el = getattr(EL, sp["el"])
        v = sp["v"]
        comp.append(Species(el, sp["q"], Maxwellian(_profile(sp["n"], sp["gn"]), _profile(sp["T"], sp["gT"]),
                                                    Vector3D(v[0], v[1], v[2]), el.atomic_weight * AMU_2018)))
    plasma.composition = comp
    ad = MockBeamAtomicData(case["rates"], log)
    plasma.atomic_data = ad
    beam = Beam()
    beam.plasma = plasma
    beam.atomic_data = ad
    att = MockBeamAttenuator(bm["dens"])
    beam.attenuator = att
    beam.energy = bm["E"]
    beam.power = bm["power"]
    beam.temperature = bm["T"]
    beam.element = getattr(EL, bm["el"])
    beam.length = bm["length"]
    b.plasma, b.beam, b.ad, b.att = plasma, beam, ad, att
    b.beam_point = Point3D(*bm["point"])
    b.plasma_point = Point3D(*case["point"])
    b.beam_dir = Vector3D(*[x * bm["dscale"] for x in bm["dir"]])
    b.obs = Vector3D(*case["obs"])
    return b


def emit(model, b, wl, win, into=None):
    s = into if into is not None else Spectrum(wl * (1 - win["half"]), wl * (1 + win["half"]), win["bins"])
    out = model.emission(b.beam_point, b.plasma_point, b.beam_dir, b.obs, s)
    return out


# ----------------------------------------------------------------------------------------------- oracle
class State:
    """Local plasma / beam state at the two points, from the case alone (plain Python)."""

    def __init__(self, case, amu):
        pl, bm = case["plasma"], case["beam"]
        x, y, z = case["point"]
        self.amu = amu
        self.sp = []
        for sp in pl["species"]:
            self.sp.append({"el": sp["el"], "q": sp["q"], "n": _profile(sp["n"], sp["gn"])(x, y, z),
                            "T": _profile(sp["T"], sp["gT"])(x, y, z), "v": sp["v"]})
        bv = _bfield(pl)(x, y, z)
        self.B = math.sqrt(bv[0] ** 2 + bv[1] ** 2 + bv[2] ** 2)
        bx, by, bz = bm["point"]
        self.nb = beam_density(bm["dens"], bx, by, bz) if 0.0 <= bz <= bm["length"] else 0.0
        speed = math.sqrt(2.0 * bm["E"] * E_CH / amu)
        d = _unit(bm["dir"])
        self.vb = [speed * d[0], speed * d[1], speed * d[2]]
        self.E = bm["E"]
        ions = [s for s in self.sp if s["q"] >= 1]
        self.ions = ions
        self.s1 = sum(s["q"] * s["n"] for s in ions)
        self.s2 = sum(s["q"] ** 2 * s["n"] for s in ions)
        self.nion = sum(s["n"] for s in ions)
        self.nall = sum(s["n"] for s in self.sp)

    def e_int(self, u):
        w2 = sum((self.vb[i] - u[i]) ** 2 for i in range(3))
        return 0.5 * self.amu * w2 / E_CH

    def e_scale(self, u):
        return max(self.E, 0.5 * self.amu * sum(x * x for x in u) / E_CH)


def oracle_cx(case, amu, nion_all):
    """returns dict(total, q, qs, ks, args) for the CX line."""
    S = State(case, amu)
    rates = BeamRates(case["rates"])
    r = S.sp[case["recv"]]
    donor = case["beam"]["el"]
    tr = tuple(case["transition"])
    nion = S.nall if nion_all else S.nion
    zeff = S.s2 / S.s1 if S.s1 > 0 else float("nan")
    e_r = S.e_int(r["v"])
    cx_args = (e_r, r["T"], nion, zeff, S.B)
    qs = {}
    for m in range(1, rates.nmeta + 1):
        qs[m] = rates.cx(donor, m, r["el"], r["q"], tr)(*cx_args)
    ks, pop_args = {}, {}
    for m in range(2, rates.nmeta + 1):
        acc = 0.0
        for s in S.ions:
            a = (S.e_int(s["v"]), S.s2 / s["q"], s["T"])
            pop_args[BeamRates.pop_key(donor, m, s["el"], s["q"])] = (a, s["n"] > 0, S.e_scale(s["v"]))
            if s["n"] > 0:
                acc += s["q"] * s["n"] * rates.population(donor, m, s["el"], s["q"])(*a)
        ks[m] = acc / S.s1 if S.s1 > 0 else float("nan")
    num, den = qs[1], 1.0
    for m in ks:
        num += ks[m] * qs[m]
        den += ks[m]
    q = num / den
    return {"S": S, "total": S.nb * r["n"] * q / (4.0 * math.pi), "q": q, "qs": qs, "ks": ks, "cx_args": cx_args,
            "pop_args": pop_args, "nb": S.nb, "nr": r["n"], "e_scale_r": S.e_scale(r["v"])}


def oracle_bes(case, amu):
    S = State(case, amu)
    rates = BeamRates(case["rates"])
    bel = case["beam"]["el"]
    acc, args = 0.0, {}
    for s in S.ions:
        a = (S.e_int(s["v"]), S.s2 / s["q"], s["T"])
        args[BeamRates.bes_key(bel, s["el"], s["q"], (3, 2))] = (a, s["n"] > 0, S.e_scale(s["v"]))
        if s["n"] > 0:
            acc += s["q"] * s["n"] * rates.emission(bel, s["el"], s["q"], (3, 2))(*a)
    return {"S": S, "total": S.nb * acc / (4.0 * math.pi), "args": args, "nb": S.nb}


def _flowing(S):
    return sum(1 for s in S.ions if s["n"] > 0 and any(c != 0.0 for c in s["v"]))


def _check_rate_args(ctx, log, family, expected, what):
    """Every evaluation of a non-null, non-zero-weight rate must have seen the statement's arguments."""
    for fam, key, args in log:
        if fam != family or key not in expected:
            continue
        want, weighted, escale = expected[key]
        if not weighted:
            continue
        ctx.close(args[0], want[0], what + "-energy", rtol=1e-9, atol=2e-9 * escale, scale=abs(want[0]),
                  info="(%s: interaction energy seen by the rate)" % key)
        ctx.close(args[1], want[1], what + "-density", rtol=1e-9, info="(%s: equivalent density sum_j Z_j^2 n_j / Z_i)" % key)
        ctx.close(args[2], want[2], what + "-temperature", rtol=1e-9, info="(%s: target temperature)" % key)


# ----------------------------------------------------------------------------------------------- CX
def run_cx(case, ctx):
    log = []
    rates = BeamRates(case["rates"])
    sp = case["plasma"]["species"]
    r = sp[case["recv"]]
    el = getattr(EL, r["el"])
    tr = tuple(case["transition"])
    line = Line(el, r["q"] - 1, tr)
    wl = rates.wavelength(r["el"], r["q"] - 1, tr)
    with ctx.cut("construct"):
        b = build(case, log)
        kw = {"lineshape": ZeemanTriplet} if case["ls"] == "zeeman" else {}
        model = BeamCXLine(line, beam=b.beam, plasma=b.plasma, atomic_data=b.ad, **kw)
    with ctx.cut("emission"):
        out = emit(model, b, wl, case["win"])
    samples = np.array(out.samples)
    delta = out.delta_wavelength
    got = float(samples.sum() * delta)

    o18 = oracle_cx(case, AMU_2018, False)
    o22 = oracle_cx(case, AMU_2022, False)
    S = o18["S"]
    nmeta = rates.nmeta
    has_neutral = any(s["q"] == 0 for s in sp)
    ctx.label("meta:1" if nmeta == 1 else "meta:>=2", "ls:" + case["ls"])
    if has_neutral:
        ctx.label("neutrals")

    # ---- zero beam or receiver density: nothing is emitted
    if o18["nb"] == 0.0 or o18["nr"] == 0.0:
        ctx.label("zero:beam" if o18["nb"] == 0.0 else "zero:receiver")
        ctx.check(np.all(samples == 0.0), "zero", lambda: "beam density %r, receiver density %r but emission %r"
                  % (o18["nb"], o18["nr"], got))
        return

    ctx.check(np.all(np.isfinite(samples)), "finite", "non-finite samples")

    # ---- total = (1/4pi) n_beam n_receiver q
    want = o18["total"]
    slack = abs(o22["total"] - want)
    matched = abs(got - want) <= 1e-9 * abs(want) + slack
    if S.nall != S.nion:
        # neutrals with density: 'total ion density' may or may not count them (see ASSUMPTIONS)
        a18, a22 = oracle_cx(case, AMU_2018, True), oracle_cx(case, AMU_2022, True)
        m_all = abs(got - a18["total"]) <= 1e-9 * abs(a18["total"]) + abs(a22["total"] - a18["total"])
        if abs(a18["total"] - want) > 4e-9 * abs(want) + 2 * slack:
            ctx.label("nion:counts-neutrals" if m_all and not matched else "nion:ions-only" if matched else "nion:neither")
        if m_all and not matched:
            o18, o22, want, slack, matched = a18, a22, a18["total"], abs(a22["total"] - a18["total"]), True
    if not matched:
        ctx.fail("total", "integrated CX emission %r, expected (1/4pi) n_b n_r q = %r (n_b %r, n_r %r, q %r, q_m %r, k_m %r, "
                 "E_int %r, T_r %r, n_ion %r, Zeff %r, |B| %r); rel. err %.3g"
                 % (got, want, o18["nb"], o18["nr"], o18["q"], o18["qs"], o18["ks"], o18["cx_args"][0], o18["cx_args"][1],
                    o18["cx_args"][2], o18["cx_args"][3], o18["cx_args"][4], abs(got - want) / abs(want)))

    # ---- q lies between the smallest and the largest individual coefficient
    q_got = got * 4.0 * math.pi / (o18["nb"] * o18["nr"])
    qlo = min(min(o18["qs"].values()), min(o22["qs"].values()))
    qhi = max(max(o18["qs"].values()), max(o22["qs"].values()))
    ctx.check(qlo * (1 - 1e-9) <= q_got <= qhi * (1 + 1e-9), "bounds",
              lambda: "composite coefficient %r outside [min, max] = [%r, %r] of the individual ones %r" % (q_got, qlo, qhi, o18["qs"]))
    if nmeta >= 2 and qhi > qlo * (1 + 1e-6):
        pos = (q_got - qlo) / (qhi - qlo)
        ctx.label("bounds:interior" if 1e-6 < pos < 1 - 1e-6 else "bounds:edge")

    # ---- arguments the coefficients were evaluated at
    cx_calls = [(k, a) for f, k, a in log if f == "cx"]
    ctx.check(len(cx_calls) >= nmeta, "cx-calls", "only %d of %d metastable coefficients were evaluated" % (len(cx_calls), nmeta))
    names = ("interaction energy", "receiver temperature", "total ion density", "Z-effective", "|B|")
    for key, a in cx_calls:
        for i in range(5):
            w = o18["cx_args"][i]
            if i == 0:
                ctx.close(a[0], w, "cx-arg-energy", rtol=1e-9, atol=2e-9 * o18["e_scale_r"], scale=abs(w), info="(%s)" % key)
            else:
                ctx.close(a[i], w, "cx-arg", rtol=1e-9, atol=1e-300, info="(%s: %s)" % (key, names[i]))
    _check_rate_args(ctx, log, "pop", o18["pop_args"], "pop-arg")

    # ---- a second call adds the same line again
    with ctx.cut("emission"):
        out2 = emit(model, b, wl, case["win"], into=out)
    ctx.close(np.array(out2.samples), 2 * samples, "additive", rtol=1e-12)

    nt = nmeta >= 2 and _flowing(S) >= 2
    if nt:
        ctx.label("nt")
    ctx.nt(nt)


# ----------------------------------------------------------------------------------------------- BES
def run_bes(case, ctx):
    log = []
    rates = BeamRates(case["rates"])
    bel = case["beam"]["el"]
    line = Line(getattr(EL, bel), 0, (3, 2))
    wl = rates.wavelength(bel, 0, (3, 2))
    with ctx.cut("construct"):
        b = build(case, log)
        model = BeamEmissionLine(line, beam=b.beam, plasma=b.plasma, atomic_data=b.ad)
    with ctx.cut("emission"):
        out = emit(model, b, wl, case["win"])
    samples = np.array(out.samples)
    got = float(samples.sum() * out.delta_wavelength)

    o18 = oracle_bes(case, AMU_2018)
    o22 = oracle_bes(case, AMU_2022)
    S = o18["S"]
    if any(s["q"] == 0 for s in case["plasma"]["species"]):
        ctx.label("neutrals")
    ctx.label("ions:%d" % sum(1 for s in S.ions if s["n"] > 0))

    if o18["nb"] == 0.0 or S.s1 == 0.0:
        ctx.label("zero:beam" if o18["nb"] == 0.0 else "zero:ions")
        ctx.check(np.all(samples == 0.0), "zero", lambda: "beam density %r, ion charge density %r but emission %r" % (o18["nb"], S.s1, got))
        return

    ctx.check(np.all(np.isfinite(samples)), "finite", "non-finite samples")
    want = o18["total"]
    slack = abs(o22["total"] - want)
    if not abs(got - want) <= 1e-9 * abs(want) + slack:
        ctx.fail("total", "integrated beam emission %r, expected (1/4pi) n_b sum_i Z_i n_i q_i = %r (n_b %r, species %r, "
                 "args per species %r); rel. err %.3g"
                 % (got, want, o18["nb"], [(s["el"], s["q"], s["n"]) for s in S.ions], o18["args"], abs(got - want) / abs(want)))
    _check_rate_args(ctx, log, "bes", o18["args"], "bes-arg")

    with ctx.cut("emission"):
        out2 = emit(model, b, wl, case["win"], into=out)
    ctx.close(np.array(out2.samples), 2 * samples, "additive", rtol=1e-12)

    nt = _flowing(S) >= 2
    if nt:
        ctx.label("nt")
    if any(s["q"] >= 2 and s["n"] > 0 for s in S.ions):
        ctx.label("Z>=2")
    ctx.nt(nt)


SUBCHECKS = {
    "cx": Given(strategy_cx, run_cx, quick=2500, thorough=50000),
    "bes": Given(strategy_bes, run_bes, quick=1500, thorough=30000),
}
