"""C05 - beam CX emission is a population-weighted mean of metastable-resolved coefficients, beam emission a
charge-weighted sum; both evaluated in the donor/target interaction frame and both zero without beam or receiver."""
import json
import math

import numpy as np
from hypothesis import strategies as st

from raysect.core import Point3D, Vector3D
from raysect.core.math.function.float import Arg3D, Exp3D, Constant3D
from raysect.core.math.function.vector3d import Constant3D as ConstantVector3D
from raysect.optical import Spectrum

from cherab.core import Plasma, Species, Maxwellian, Beam, Line
from cherab.core.atomic import elements as EL
from cherab.core.model import BeamCXLine, BeamEmissionLine, GaussianLine, ZeemanTriplet, ParametrisedZeemanTriplet, \
    MultipletLineShape

from ..core import Given
from ..mocks_beam import BeamRates, MockBeamAtomicData, MockBeamAttenuator, beam_density

ID = "C05"
RULE = ("Case = scene-free Plasma (1-4 distinct ion species with Z>=1 drawn from H/D/T/He/He3/Li/Be/C/N/Ne/Ar charge states, "
        "0-2 neutrals, each with density (0 or 1e16..1e21, exponential gradient), temperature (1..5e3 eV, gradient), flow "
        "(0, slow, up to 2e6 m/s per component; classes: all flows equal, one species co-moving with the beam, twin species "
        "with equal n and T); B = B0 (1 + g.r), incl. B = 0) x Beam (H/D/T[/He] at 0 or 1e3..1.5e5 eV/amu given as float or "
        "int, un-normalised or axis-aligned direction, density from the Python attenuator mock: zero / uniform / "
        "Gaussian-exponential, beam point inside, on or outside 0<=z<=length) x atomic data mock (1-4 donor metastables "
        "returned in a drawn order, optionally the same list object on every request; every rate a distinct power-law-like "
        "function of all its arguments, selected by a seed; exactly-zero coefficients - as a function returning 0 "
        "or as the provider's null rate object - assigned per (family, key) to a drawn subset (none / some / all-but-one / "
        "all) of the CX metastables, of the (metastable, ion species) population coefficients and of the BES target species; "
        "argument-independent coefficients) x receiver line / Balmer-alpha x spectral "
        "window (1..40 bins, +-6..10 %). Forms: profiles as Python callables, plain floats, raysect Function3D expressions; "
        "flows as Vector3D / callable / vector function; model wired by constructor keywords, by the beam/plasma/atomic_data "
        "setters, or by beam.models = [...] (arguments omitted); CX line-shape class omitted / GaussianLine / ZeemanTriplet / "
        "ParametrisedZeemanTriplet / MultipletLineShape with lineshape_args (list or tuple) or lineshape_kwargs; BES ratio "
        "options omitted / floats / callables. ONE model instance is evaluated at 1-4 (beam point, plasma point, beam "
        "direction, view) tuples, optionally with model.line or beam.energy re-assigned in between, and the first "
        "evaluation is made twice in a row and repeated at the end, after evaluations into spectra with more and with fewer "
        "bins (bit for bit). INTERFERENCE: every case carries a second instance B of the same class, constructed the same "
        "way (same wiring, same option forms, defaults left to default) with its own plasma / beam / provider: mostly the "
        "same keys (species list, line, beam element) but another provider seed, densities, temperatures, flows, beam, "
        "points, sometimes one species more or fewer or another line. Order A-B-A: A's sequence, B built and used "
        "(evaluations checked against B's own oracle, line / energy setters), then A's and B's first evaluation again, "
        "bit for bit; order B-first: A built, B built and used, then A used for the first time (A's oracle). Non-trivial: an evaluation with beam density > 0 and >= 2 ion "
        "species with non-zero density AND non-zero flow, plus for CX >= 2 donor metastables and receiver density > 0; "
        "distinct by case hash.")
ASSUMPTIONS = ["the analytic mock rates are the 'individual coefficients' of the statement; the mock classes are trusted",
               "relative beam populations k_m are the charge-density weighted means of the per-species population "
               "coefficients, each at the donor/species interaction energy, sum_j Z_j^2 n_j / Z_i and T_i (anchor "
               "_beam_population)",
               "e / amu: the package documents CODATA 2018; CODATA 2022 differs by 1.4e-9 in amu - either is accepted "
               "(interval oracle)",
               "'total ion density': the statement does not say whether neutral atoms of the composition count; both the sum "
               "over charge>=1 species and Plasma.ion_density's documented sum over all species are accepted (labelled)",
               "the line shapes (polarisation 'no') put the whole radiance inside a window that contains the line (verified "
               "by C02); temperatures > 0, electron density / temperature > 0 (needed by the Stark multiplet shape)"]
TOLERANCES = {
    "totals": "1e-9 relative (same double arithmetic on both sides: a few dozen roundings, erf differences of the Gaussian "
              "bins telescope) + |oracle(CODATA 2018) - oracle(CODATA 2022)| (constants interval)",
    "arguments seen by the rates": "1e-9 relative, for E_int relative to max(E_int, E_beam, 0.5 amu u^2 / e) because "
                                   "|v_beam - u|^2 cancels; + 1e-290 (subnormal squares of speeds below 1e-145 m/s)",
    "bounds min q_i <= q <= max q_i": "1e-9 relative slack on both ends",
    "second call into the same spectrum doubles it": "1e-12 relative to the largest sample",
    "zero beam / receiver density; repeats (immediate, end of sequence, after another instance was built and used); earlier results after later calls": "exact (bit for bit: the arithmetic is deterministic)",
    "Plasma.z_effective": "1e-12 relative (two sums and a quotient)",
}
_CX_SHAPES = ["default", "gaussian", "zeeman", "zeeman-args", "zeeman-kwargs", "pzeeman-args", "multiplet-args", "multiplet-kwargs"]
REQUIRED_LABELS = (["cx:zero:beam", "cx:zero:receiver", "cx:meta:1", "cx:meta:2", "cx:meta:3", "cx:meta:4", "cx:order:shuffled",
                    "cx:neutrals", "cx:nt", "cx:op:line", "cx:op:energy", "cx:steps:1", "cx:steps:>=3", "cx:repeat",
                    "cx:flows:equal", "cx:flows:comoving", "cx:rates:const", "cx:zeros:cx:some", "cx:zeros:cx:all-but-one", "cx:zeros:cx:all", "cx:zeros:cx:ground",
                    "cx:zeros:pop:some", "cx:zeros:pop:all-but-one", "cx:zeros:pop:all", "cx:zeros:pop:partial-live", "cx:zeros:null-object",
                    "cx:provider:cached-lists", "cx:E:int", "cx:E:0", "cx:isotope-receiver"]
                   + ["cx:ls:" + x for x in _CX_SHAPES]
                   + ["%s:wire:%s" % (s, w) for s in ("cx", "bes") for w in ("ctor", "setters", "beam.models")]
                   + ["%s:form:%s" % (s, f) for s in ("cx", "bes") for f in ("callable", "float", "function3d", "v:vector", "v:callable", "v:function")]
                   + ["bes:zero:beam", "bes:zero:ions", "bes:neutrals", "bes:nt", "bes:Z>=2", "bes:op:line", "bes:op:energy",
                      "bes:steps:1", "bes:steps:>=3", "bes:repeat", "bes:flows:equal", "bes:flows:comoving", "bes:zeros:bes:some", "bes:zeros:bes:all-but-one", "bes:zeros:bes:all", "bes:zeros:bes:partial-live",
                      "bes:zeros:null-object",
                      "bes:rates:const", "bes:ratios:default", "bes:ratios:floats", "bes:ratios:callables", "bes:E:int", "bes:E:0"]
                   + ["%s:%s" % (s, x) for s in ("cx", "bes") for x in
                      ("interference:A-B-A", "interference:B-first", "interference:same-line", "interference:B-more-species",
                       "interference:B-fewer-species", "repeat:immediate", "repeat:after-bigger", "repeat:after-smaller")]
                   + ["cx:interference:other-line"])

C_LIGHT = 299792458.0
E_CH = 1.602176634e-19
AMU_2018 = 1.66053906660e-27
AMU_2022 = 1.66053906892e-27

# (element name, atomic number)
POOL = [("hydrogen", 1), ("deuterium", 1), ("tritium", 1), ("helium", 2), ("helium3", 2), ("lithium", 3), ("beryllium", 4),
        ("carbon", 6), ("nitrogen", 7), ("neon", 10), ("argon", 18)]
ZMAX = dict(POOL)
ISOTOPES = ("deuterium", "tritium", "helium3")


# ----------------------------------------------------------------------------------------------- strategy
def _logu(lo, hi):
    return st.floats(math.log10(lo), math.log10(hi)).map(lambda e: float(10.0 ** e))


@st.composite
def _rare(draw, options):
    """Pick a label with stated probabilities. options = [(p, label), ...] for the rare classes (sum p < 0.37); returns
    None for the common class. (one_of / sampled_from over-weight their first entries; a float threshold does not, and
    the boundary values 0.0 / 1.0, which Hypothesis likes, are mapped into the common class.)"""
    u = (draw(st.floats(0.0, 1.0)) + 0.37) % 1.0
    acc = 0.0
    for p, label in options:
        acc += p
        if u < acc:
            return label
    return None


_vec = lambda a: st.lists(st.floats(-a, a), min_size=3, max_size=3)   # noqa: E731


@st.composite
def _grad(draw):
    return [0.0, 0.0, 0.0] if draw(_rare([(0.3, "flat")])) else draw(_vec(0.5))


@st.composite
def _flow(draw):
    kind = draw(_rare([(0.12, "rest"), (0.2, "slow")]))
    return [0.0, 0.0, 0.0] if kind == "rest" else draw(_vec(2e5)) if kind == "slow" else draw(_vec(2e6))


@st.composite
def _species(draw, el, q):
    dens = 0.0 if draw(_rare([(0.1, "absent")])) else draw(st.one_of(_logu(1e16, 1e21), _logu(1e18, 1e20)))
    return {"el": el, "q": q, "n": dens, "gn": draw(_grad()), "T": draw(st.one_of(_logu(1.0, 5e3), _logu(10.0, 3e3))),
            "gT": draw(_grad()), "v": draw(_flow()),
            "form": draw(st.sampled_from(["callable", "native"])), "vform": draw(st.sampled_from(["vector", "callable", "function"]))}


@st.composite
def _plasma(draw):
    nion = {"one": 1, "two": 2, "four": 4, None: 3}[draw(_rare([(0.1, "one"), (0.15, "four"), (0.1, "two")]))]
    nion = draw(st.integers(1, 4)) if draw(st.booleans()) else nion
    seen, sp = set(), []
    for _ in range(nion):
        el = draw(st.sampled_from([p[0] for p in POOL]))
        q = draw(st.one_of(st.integers(1, ZMAX[el]), st.just(ZMAX[el])))
        if (el, q) in seen:
            continue
        seen.add((el, q))
        sp.append(draw(_species(el, q)))
    nneut = {"one": 1, "two": 2, None: 0}[draw(_rare([(0.2, "one"), (0.1, "two")]))]
    for _ in range(nneut):
        el = draw(st.sampled_from([p[0] for p in POOL]))
        if (el, 0) in seen:
            continue
        seen.add((el, 0))
        sp.append(draw(_species(el, 0)))
    sp = list(draw(st.permutations(sp)))
    if draw(_rare([(0.08, "twins")])):
        for s in sp[1:]:
            s["n"], s["gn"], s["T"], s["gT"] = sp[0]["n"], list(sp[0]["gn"]), sp[0]["T"], list(sp[0]["gT"])
    return {"species": sp,
            "B": [0.0, 0.0, 0.0] if draw(_rare([(0.08, "unmagnetised")])) else draw(_vec(4.0)),
            "gB": [0.0, 0.0, 0.0] if draw(_rare([(0.25, "uniform")])) else draw(_vec(0.3)),
            "ne": draw(_logu(1e17, 1e21)), "te": draw(_logu(1.0, 1e4))}


@st.composite
def _direction(draw):
    axis = draw(_rare([(0.04, [0.0, 0.0, 1.0]), (0.03, [1.0, 0.0, 0.0]), (0.03, [0.0, -1.0, 0.0]), (0.04, [0.6, 0.0, -0.8])]))
    d = axis if axis is not None else draw(_vec(1.0))
    if math.sqrt(sum(x * x for x in d)) < 1e-2:
        d = [0.0, 0.0, 1.0]
    return list(d)


@st.composite
def _where(draw, length):
    """(beam point, plasma point, beam direction, scale of the direction vector, viewing direction)"""
    where = draw(_rare([(0.03, -0.01), (0.03, 1.01), (0.02, -2.0), (0.02, 3.0), (0.03, 0.0), (0.03, 1.0)]))
    z = draw(st.floats(0.0, 1.0)) if where is None else where
    return {"bp": [draw(st.floats(-0.3, 0.3)), draw(st.floats(-0.3, 0.3)), z * length], "pp": draw(_vec(1.0)),
            "dir": draw(_direction()), "dscale": draw(st.sampled_from([1.0, 1.0, 0.01, 37.5])), "obs": draw(_direction()),
            "bins": draw(st.integers(1, 40))}


@st.composite
def _energy(draw):
    kind = draw(_rare([(0.03, "zero"), (0.15, "int")]))
    if kind == "zero":
        return 0
    if kind == "int":
        return draw(st.integers(1000, 150000))
    return draw(st.one_of(_logu(1e3, 1.5e5), st.floats(1e4, 1.2e5)))


@st.composite
def _beam(draw, elements):
    kind = draw(_rare([(0.08, "zero"), (0.25, "uniform")])) or "gauss"
    if kind == "zero":
        dens = {"kind": "zero"}
    elif kind == "uniform":
        dens = {"kind": "uniform", "n0": draw(_logu(1e12, 1e17))}
    else:
        dens = {"kind": "gauss", "n0": draw(_logu(1e12, 1e17)), "sigma": draw(st.floats(0.02, 0.3)), "decay": draw(st.floats(0.3, 10.0))}
    return {"el": draw(st.sampled_from(elements)), "E": draw(_energy()),
            "T": draw(_logu(0.1, 100.0)), "power": draw(_logu(1e3, 1e7)), "length": draw(st.floats(0.5, 5.0)), "dens": dens}


def _beam_velocity(E, d):
    speed = math.sqrt(2.0 * float(E) * E_CH / AMU_2018)
    n = math.sqrt(sum(x * x for x in d))
    return [speed * x / n for x in d]


@st.composite
def _common(draw, cx):
    case = {"plasma": draw(_plasma()),
            "beam": draw(_beam(["hydrogen", "deuterium", "tritium", "helium"] if cx else ["hydrogen", "deuterium", "tritium"])),
            "win": {"bins": draw(st.integers(1, 40)), "half": draw(st.floats(0.06, 0.1))},
            "wire": draw(st.sampled_from(["ctor", "setters", "beam.models"]))}
    case["at"] = draw(_where(case["beam"]["length"]))
    nmeta = (draw(_rare([(0.12, 1), (0.15, 4)])) or draw(st.integers(2, 3))) if cx else 1
    case["rates"] = {"seed": draw(st.integers(0, 2 ** 31 - 1)), "metastables": nmeta,
                     "cx_order": list(draw(st.permutations(list(range(nmeta))))),
                     "q0": {"pop": draw(_logu(1e-3, 3.0))}, "cache_lists": draw(st.booleans())}
    return case


def _flow_classes(draw, case, lead):
    """all flows equal / species `lead` co-moving with the beam (E_int = 0 up to rounding)."""
    sp = case["plasma"]["species"]
    kind = draw(_rare([(0.1, "same"), (0.06, "comoving")]))
    if kind == "same":
        v = sp[0]["v"] if any(sp[0]["v"]) else draw(_vec(1e6))
        for s in sp:
            s["v"] = list(v)
    elif kind == "comoving" and case["beam"]["E"] > 0:
        sp[lead]["v"] = _beam_velocity(case["beam"]["E"], case["at"]["dir"])


def _steps(draw, case, cx):
    """further evaluations with the same model instance"""
    n = {"none": 0, "two": 2, "three": 3, None: 1}[draw(_rare([(0.15, "none"), (0.1, "three"), (0.1, "two")]))]
    ions = [i for i, s in enumerate(case["plasma"]["species"]) if s["q"] >= 1]
    steps = []
    for _ in range(n):
        s = draw(_where(case["beam"]["length"]))
        op = draw(_rare([(0.2, "line"), (0.15, "energy")]))
        if op == "line":
            s["op"] = "line"
            if cx:
                s["recv"] = draw(st.sampled_from(ions))
                up = draw(st.integers(2, 12))
                s["transition"] = [up, draw(st.integers(1, up - 1))]
        elif op == "energy":
            s["op"] = "energy"
            s["E"] = draw(_energy())
        steps.append(s)
    return steps


def _subset(draw, items):
    """a drawn subset of items: none (common) / some / all-but-one / all"""
    cls = draw(_rare([(0.1, "some"), (0.08, "all-but-one"), (0.07, "all")]))
    items = list(items)
    if cls is None or not items:
        return []
    if cls == "all":
        return items
    if cls == "all-but-one":
        j = draw(st.integers(0, len(items) - 1))
        return items[:j] + items[j + 1:]
    pick = [x for x in items if draw(st.booleans())]
    return pick or [items[draw(st.integers(0, len(items) - 1))]]


def _zero_sets(draw, case, cx):
    """Coefficients that are exactly zero, per (family, key), for a drawn SUBSET of the species / metastables - either as
    a function returning 0.0 or as the provider's null rate object (non-negative tables, null rates: both in the quantifier)."""
    sp = case["plasma"]["species"]
    ions = [(x["el"], x["q"]) for x in sp if x["q"] >= 1]
    donor = case["beam"]["el"]
    keys = []
    if cx:
        nmeta = case["rates"]["metastables"]
        r = sp[case["recv"]]
        lines = [(r["el"], r["q"], case["transition"])] + [(sp[x["recv"]]["el"], sp[x["recv"]]["q"], x["transition"])
                                                           for x in case.get("steps", []) if x.get("op") == "line" and "recv" in x]
        for m in _subset(draw, range(1, nmeta + 1)):
            keys += ["cx|" + BeamRates.cx_key(donor, m, el, q, tr) for el, q, tr in lines]
        for m in range(2, nmeta + 1):
            keys += ["pop|" + BeamRates.pop_key(donor, m, el, q) for el, q in _subset(draw, ions)]
    else:
        keys += ["bes|" + BeamRates.bes_key(donor, el, q, (3, 2)) for el, q in _subset(draw, ions)]
    zero, null = [], []
    for k in keys:
        (null if draw(st.booleans()) else zero).append(k)
    if zero:
        case["rates"]["zero"] = zero
    if null:
        case["rates"]["null"] = null


def _variant(draw, case, cx):
    """Parameters of a SECOND instance B of the same class: same way of construction (wiring, option forms, defaults left
    to default), mostly the same keys (species list, line, beam element), but other rate functions (provider seed),
    densities, temperatures, flows, beam, points - and sometimes one species more or fewer, or another line."""
    keep = ["plasma", "beam", "win", "wire"] + (["recv", "transition", "ls", "lsp"] if cx else ["ratios"])
    o = json.loads(json.dumps({k: case[k] for k in keep}))
    seed = draw(st.integers(0, 2 ** 31 - 1))
    nmeta = (draw(_rare([(0.12, 1), (0.15, 4)])) or draw(st.integers(2, 3))) if cx else 1
    o["rates"] = {"seed": seed + 1 if seed == case["rates"]["seed"] else seed, "metastables": nmeta,
                  "cx_order": list(draw(st.permutations(list(range(nmeta))))), "q0": {"pop": draw(_logu(1e-3, 3.0))},
                  "cache_lists": case["rates"]["cache_lists"]}
    sp = o["plasma"]["species"]
    for x in sp:
        x["n"] = x["n"] * draw(_logu(0.1, 10.0))
        x["T"] = min(5e3, max(1.0, x["T"] * draw(_logu(0.2, 5.0))))
        x["v"] = draw(_flow())
    size = draw(_rare([(0.15, "fewer"), (0.15, "more")]))
    if size == "fewer" and len(sp) >= 2:
        protect = o["recv"] if cx else [i for i, x in enumerate(sp) if x["q"] >= 1][0]
        j = draw(st.sampled_from([i for i in range(len(sp)) if i != protect]))
        del sp[j]
        if cx and j < o["recv"]:
            o["recv"] -= 1
    elif size == "more":
        el = draw(st.sampled_from([p[0] for p in POOL]))
        q = draw(st.integers(0, ZMAX[el]))
        if not any(x["el"] == el and x["q"] == q for x in sp):
            sp.append(draw(_species(el, q)))
    o["plasma"]["B"] = draw(_vec(4.0))
    nb = draw(_beam(["hydrogen", "deuterium", "tritium", "helium"] if cx else ["hydrogen", "deuterium", "tritium"]))
    if draw(st.booleans()):
        nb["el"] = case["beam"]["el"]
    o["beam"] = nb
    o["win"]["bins"] = draw(st.integers(1, 40))
    o["at"] = draw(_where(nb["length"]))
    if cx and draw(_rare([(0.3, "other-line")])) and not o["ls"].startswith("multiplet"):
        o["recv"] = draw(st.sampled_from([i for i, x in enumerate(sp) if x["q"] >= 1]))
        up = draw(st.integers(2, 12))
        o["transition"] = [up, draw(st.integers(1, up - 1))]
    if cx:
        o["lsp"]["pz"] = [draw(st.floats(1e-3, 0.2)), draw(st.floats(0.0, 0.5)), draw(st.floats(-0.5, 0.0))]
    else:
        o["ratio_values"] = [draw(st.floats(0.1, 2.0)) for _ in range(4)]
    # B is used: one or two evaluations, with its line / energy setters called in between
    st1 = draw(_where(nb["length"]))
    op = draw(st.sampled_from(["line", "energy", None]))
    if op == "line":
        st1["op"] = "line"
        if cx:
            st1["recv"], st1["transition"] = o["recv"], list(o["transition"])
    elif op == "energy":
        st1["op"], st1["E"] = "energy", draw(_energy())
    o["steps"] = [st1]
    _zero_sets(draw, o, cx)
    return o


def strategy_cx():
    @st.composite
    def s(draw):
        case = draw(_common(True))
        sp = case["plasma"]["species"]
        ions = [i for i, x in enumerate(sp) if x["q"] >= 1]
        r = draw(st.sampled_from(ions))
        case["recv"] = r
        up = draw(st.integers(2, 12))
        case["transition"] = [up, draw(st.integers(1, up - 1))]
        _flow_classes(draw, case, r)
        case["ls"] = draw(st.sampled_from(_CX_SHAPES))
        case["lsp"] = {"tuple": draw(st.booleans()), "pz": [draw(st.floats(1e-3, 0.2)), draw(st.floats(0.0, 0.5)), draw(st.floats(-0.5, 0.0))],
                       "offs": [draw(st.floats(-5e-3, 5e-3)) for _ in range(3)],
                       "ratios": draw(st.sampled_from([[1.0], [0.5, 0.5], [0.5, 0.25, 0.25], [0.125, 0.75, 0.125]]))}
        case["steps"] = _steps(draw, case, True)
        # coefficients without argument dependence; zero / null coefficients for drawn subsets of the keys
        nmeta = case["rates"]["metastables"]
        donor = case["beam"]["el"]
        if draw(_rare([(0.06, "const")])):
            ov = {}
            lines = [(sp[r]["el"], sp[r]["q"], case["transition"])] + [(sp[x["recv"]]["el"], sp[x["recv"]]["q"], x["transition"])
                                                                      for x in case["steps"] if x.get("op") == "line"]
            for el, q, tr in lines:
                for m in range(1, nmeta + 1):
                    ov["cx|" + BeamRates.cx_key(donor, m, el, q, tr)] = {"q0": 1e-33 * (1 + 0.5 * m), "p": [0.0] * 5}
            case["rates"]["override"] = ov
            case["rates_class"] = "const"
        _zero_sets(draw, case, True)
        case["other"] = _variant(draw, case, True)
        case["interf"] = draw(st.sampled_from(["A-B-A", "B-first"]))
        return case
    return s()


def strategy_bes():
    @st.composite
    def s(draw):
        case = draw(_common(False))
        sp = case["plasma"]["species"]
        ions = [i for i, x in enumerate(sp) if x["q"] >= 1]
        _flow_classes(draw, case, ions[0])
        case["steps"] = _steps(draw, case, False)
        case["ratios"] = draw(st.sampled_from(["default", "floats", "callables"]))
        case["ratio_values"] = [draw(st.floats(0.1, 2.0)) for _ in range(4)]
        bel = case["beam"]["el"]
        if draw(_rare([(0.06, "const")])):
            case["rates"]["override"] = {"bes|" + BeamRates.bes_key(bel, sp[i]["el"], sp[i]["q"], (3, 2)): {"q0": 1e-34 * (1 + i), "p": [0.0] * 3}
                                         for i in ions}
            case["rates_class"] = "const"
        _zero_sets(draw, case, False)
        case["other"] = _variant(draw, case, False)
        case["interf"] = draw(st.sampled_from(["A-B-A", "B-first"]))
        return case
    return s()


# ----------------------------------------------------------------------------------------------- building
def _unit(v):
    n = math.sqrt(sum(x * x for x in v))
    return [x / n for x in v]


def _flat(g):
    return g[0] == 0.0 and g[1] == 0.0 and g[2] == 0.0


def _profile(a0, g):
    g0, g1, g2 = g
    if _flat(g):
        return lambda x, y, z: a0
    return lambda x, y, z: a0 * math.exp(g0 * x + g1 * y + g2 * z)


def _profile_form(a0, g, form, ctx, alt):
    """the same profile in the requested input form: Python callable / plain float / raysect Function3D expression"""
    if form == "callable":
        ctx.label("form:callable")
        return _profile(a0, g)
    if _flat(g):
        if alt:
            ctx.label("form:function3d")
            return Constant3D(a0)
        ctx.label("form:float")
        return a0
    ctx.label("form:function3d")
    return a0 * Exp3D(g[0] * Arg3D("x") + g[1] * Arg3D("y") + g[2] * Arg3D("z"))


def _bfield(pl):
    b0, g = pl["B"], pl["gB"]

    def f(x, y, z):
        s = 1.0 + g[0] * x + g[1] * y + g[2] * z
        return [b0[0] * s, b0[1] * s, b0[2] * s]
    return f


class Built:
    pass


def build(case, log, ctx):
    b = Built()
    pl, bm = case["plasma"], case["beam"]
    plasma = Plasma()
    bf = _bfield(pl)
    if _flat(pl["gB"]):
        plasma.b_field = Vector3D(*pl["B"])
    else:
        plasma.b_field = lambda x, y, z: Vector3D(*bf(x, y, z))
    plasma.electron_distribution = Maxwellian(pl["ne"], pl["te"], Vector3D(0, 0, 0), 9.1093837015e-31)
    comp = []
    for i, sp in enumerate(pl["species"]):
        el = getattr(EL, sp["el"])
        v = Vector3D(*sp["v"])
        if sp["vform"] == "callable":
            vel = lambda x, y, z, v=v: v      # noqa: E731
        elif sp["vform"] == "function":
            vel = ConstantVector3D(v)
        else:
            vel = v
        ctx.label("form:v:" + sp["vform"])
        comp.append(Species(el, sp["q"], Maxwellian(_profile_form(sp["n"], sp["gn"], sp["form"], ctx, i % 2 == 0),
                                                    _profile_form(sp["T"], sp["gT"], sp["form"], ctx, i % 2 == 1),
                                                    vel, el.atomic_weight * AMU_2018)))
    plasma.composition = comp
    ad = MockBeamAtomicData(case["rates"], log)
    plasma.atomic_data = ad
    beam = Beam()
    beam.plasma = plasma
    beam.atomic_data = ad
    att = MockBeamAttenuator(bm["dens"])
    beam.attenuator = att
    beam.energy = bm["E"]            # float or Python int
    beam.power = bm["power"]
    beam.temperature = bm["T"]
    beam.element = getattr(EL, bm["el"])
    beam.length = bm["length"]
    b.plasma, b.beam, b.ad, b.att = plasma, beam, ad, att
    return b


def wire(case, b, cls, args, kwargs, ctx):
    """model connected to beam / plasma / atomic data in one of the three supported ways"""
    w = case["wire"]
    ctx.label("wire:" + w)
    if w == "ctor":
        return cls(*args, beam=b.beam, plasma=b.plasma, atomic_data=b.ad, **kwargs)
    model = cls(*args, **kwargs)
    if w == "setters":
        model.atomic_data = b.ad
        model.plasma = b.plasma
        model.beam = b.beam
    else:
        b.beam.models = [model]
    return model


# ----------------------------------------------------------------------------------------------- oracle
class State:
    """Local plasma / beam state for one evaluation, from the case alone (plain Python)."""

    def __init__(self, case, at, E, amu):
        pl, bm = case["plasma"], case["beam"]
        x, y, z = at["pp"]
        self.amu = amu
        self.sp = []
        for sp in pl["species"]:
            self.sp.append({"el": sp["el"], "q": sp["q"], "n": _profile(sp["n"], sp["gn"])(x, y, z),
                            "T": _profile(sp["T"], sp["gT"])(x, y, z), "v": sp["v"]})
        bv = _bfield(pl)(x, y, z)
        self.B = math.sqrt(bv[0] ** 2 + bv[1] ** 2 + bv[2] ** 2)
        bx, by, bz = at["bp"]
        self.nb = beam_density(bm["dens"], bx, by, bz) if 0.0 <= bz <= bm["length"] else 0.0
        speed = math.sqrt(2.0 * float(E) * E_CH / amu)
        d = _unit(at["dir"])
        self.vb = [speed * d[0], speed * d[1], speed * d[2]]
        self.E = float(E)
        ions = [s for s in self.sp if s["q"] >= 1]
        self.ions = ions
        self.s1 = sum(s["q"] * s["n"] for s in ions)
        self.s2 = sum(s["q"] ** 2 * s["n"] for s in ions)
        self.nion = sum(s["n"] for s in ions)
        self.nall = sum(s["n"] for s in self.sp)

    def e_int(self, u):
        w2 = sum((self.vb[i] - u[i]) ** 2 for i in range(3))
        return 0.5 * self.amu * w2 / E_CH

    def e_scale(self, u):
        return max(self.E, 0.5 * self.amu * sum(x * x for x in u) / E_CH)


def oracle_cx(case, ev, amu, nion_all):
    """ev = {"at":, "E":, "recv":, "transition":}; returns dict(total, q, qs, ks, args) for the CX line."""
    S = State(case, ev["at"], ev["E"], amu)
    rates = BeamRates(case["rates"])
    r = S.sp[ev["recv"]]
    donor = case["beam"]["el"]
    tr = tuple(ev["transition"])
    nion = S.nall if nion_all else S.nion
    zeff = S.s2 / S.s1 if S.s1 > 0 else float("nan")
    e_r = S.e_int(r["v"])
    cx_args = (e_r, r["T"], nion, zeff, S.B)
    qs = {}
    for m in range(1, rates.nmeta + 1):
        qs[m] = rates.cx(donor, m, r["el"], r["q"], tr)(*cx_args)
    ks, pop_args = {}, {}
    for m in range(2, rates.nmeta + 1):
        acc = 0.0
        for s in S.ions:
            a = (S.e_int(s["v"]), S.s2 / s["q"], s["T"])
            pop_args[BeamRates.pop_key(donor, m, s["el"], s["q"])] = (a, s["n"] > 0, S.e_scale(s["v"]))
            if s["n"] > 0:
                acc += s["q"] * s["n"] * rates.population(donor, m, s["el"], s["q"])(*a)
        ks[m] = acc / S.s1 if S.s1 > 0 else float("nan")
    num, den = qs[1], 1.0
    for m in ks:
        num += ks[m] * qs[m]
        den += ks[m]
    q = num / den
    return {"S": S, "total": S.nb * r["n"] * q / (4.0 * math.pi), "q": q, "qs": qs, "ks": ks, "cx_args": cx_args,
            "pop_args": pop_args, "nb": S.nb, "nr": r["n"], "e_scale_r": S.e_scale(r["v"])}


def oracle_bes(case, ev, amu):
    S = State(case, ev["at"], ev["E"], amu)
    rates = BeamRates(case["rates"])
    bel = case["beam"]["el"]
    acc, args = 0.0, {}
    for s in S.ions:
        a = (S.e_int(s["v"]), S.s2 / s["q"], s["T"])
        args[BeamRates.bes_key(bel, s["el"], s["q"], (3, 2))] = (a, s["n"] > 0, S.e_scale(s["v"]))
        if s["n"] > 0:
            acc += s["q"] * s["n"] * rates.emission(bel, s["el"], s["q"], (3, 2))(*a)
    return {"S": S, "total": S.nb * acc / (4.0 * math.pi), "args": args, "nb": S.nb}


def _flowing(S):
    return sum(1 for s in S.ions if s["n"] > 0 and any(c != 0.0 for c in s["v"]))


def _flow_labels(ctx, S, e_min):
    live = [s for s in S.ions if s["n"] > 0]
    if len(live) >= 2 and any(live[0]["v"]) and all(s["v"] == live[0]["v"] for s in live):
        ctx.label("flows:equal")
    if S.E > 0 and e_min <= 1e-12 * S.E:
        ctx.label("flows:comoving")


def _check_rate_args(ctx, log, family, expected, what):
    """Every evaluation of a non-null, non-zero-weight rate must have seen the statement's arguments."""
    for fam, key, args in log:
        if fam != family or key not in expected:
            continue
        want, weighted, escale = expected[key]
        if not weighted:
            continue
        # + 1e-290: |v_beam - u|^2 of speeds below 1e-145 m/s lies in the subnormal range, where relative accuracy is lost
        ctx.close(args[0], want[0], what + "-energy", rtol=1e-9, atol=2e-9 * escale + 1e-290, scale=abs(want[0]),
                  info="(%s: interaction energy seen by the rate)" % key)
        ctx.close(args[1], want[1], what + "-density", rtol=1e-9, info="(%s: equivalent density sum_j Z_j^2 n_j / Z_i)" % key)
        ctx.close(args[2], want[2], what + "-temperature", rtol=1e-9, info="(%s: target temperature)" % key)


def _plasma_entry_points(ctx, b, S, at):
    """Plasma.z_effective / ion_density called directly (twice: the second read equals the first)."""
    x, y, z = at["pp"]
    if S.s2 > 0:
        with ctx.cut("z_effective"):
            z1, z2 = b.plasma.z_effective(x, y, z), b.plasma.z_effective(x, y, z)
        ctx.close(z1, S.s2 / S.s1, "z_effective", rtol=1e-12)
        ctx.check(z1 == z2, "z_effective", "two reads differ")
    with ctx.cut("ion_density"):
        n1, n2 = b.plasma.ion_density(x, y, z), b.plasma.ion_density(x, y, z)
    ctx.check(n1 == n2, "ion_density", "two reads differ")
    ok = abs(n1 - S.nion) <= 1e-12 * S.nion or abs(n1 - S.nall) <= 1e-12 * S.nall
    ctx.check(ok, "ion_density", lambda: "Plasma.ion_density %r, sum over ions %r, over all species %r" % (n1, S.nion, S.nall))


class Call:
    """One evaluation: fresh Spectrum, the geometric arguments as fresh objects (checked to be left untouched)."""

    def __init__(self, at, wl, win):
        self.bp, self.pp = Point3D(*at["bp"]), Point3D(*at["pp"])
        self.bd = Vector3D(*[x * at["dscale"] for x in at["dir"]])
        self.ob = Vector3D(*at["obs"])
        self.spectrum = Spectrum(wl * (1 - win["half"]), wl * (1 + win["half"]), at.get("bins", win["bins"]))
        self._snap = self._state()

    def _state(self):
        return [(p.x, p.y, p.z) for p in (self.bp, self.pp, self.bd, self.ob)]

    def run(self, model):
        return model.emission(self.bp, self.pp, self.bd, self.ob, self.spectrum)

    def untouched(self):
        return self._state() == self._snap


def _sequence(case, keep_line=False):
    """the evaluations of the case: first, further steps, and the first again (state restored)"""
    cur = {"at": case["at"], "E": case["beam"]["E"], "recv": case.get("recv"), "transition": case.get("transition"), "op": None}
    evs = [dict(cur)]
    for s in case.get("steps", []):
        cur = dict(cur)
        cur["at"] = s
        cur["op"] = s.get("op")
        if cur["op"] == "line" and "recv" in s and not keep_line:
            cur["recv"], cur["transition"] = s["recv"], s["transition"]
        if cur["op"] == "energy":
            cur["E"] = s["E"]
        evs.append(cur)
    last = dict(evs[0])
    last["op"] = "restore"
    evs.append(last)
    return evs


# ----------------------------------------------------------------------------------------------- CX
def _cx_shape(case, wl):
    """(kwargs for BeamCXLine, the caller-owned args / kwargs objects with snapshots)"""
    ls, p = case["ls"], case["lsp"]
    seq = tuple if p["tuple"] else list
    n = len(p["ratios"])
    mult = [[wl * (1 + o) for o in p["offs"][:n]], list(p["ratios"])]
    if ls == "default":
        return {}
    if ls == "gaussian":
        return {"lineshape": GaussianLine}
    if ls == "zeeman":
        return {"lineshape": ZeemanTriplet}
    if ls == "zeeman-args":
        return {"lineshape": ZeemanTriplet, "lineshape_args": seq(["no"])}
    if ls == "zeeman-kwargs":
        return {"lineshape": ZeemanTriplet, "lineshape_kwargs": {"polarisation": "no"}}
    if ls == "pzeeman-args":
        return {"lineshape": ParametrisedZeemanTriplet, "lineshape_args": seq([tuple(p["pz"])])}
    if ls == "multiplet-args":
        return {"lineshape": MultipletLineShape, "lineshape_args": seq([mult])}
    return {"lineshape": MultipletLineShape, "lineshape_kwargs": {"multiplet": mult}}


class Subject:
    """ONE model instance (BeamCXLine or BeamEmissionLine) with its own plasma, beam and provider, and everything
    that is done with it: the sequence of evaluations of its case, repeats, and the ownership checks."""

    def __init__(self, kind, case, ctx, tag):
        self.kind, self.case, self.ctx, self.tag = kind, case, ctx, tag
        self.log = []
        self.rates = BeamRates(case["rates"])
        self.sp = case["plasma"]["species"]
        self.nmeta = self.rates.nmeta
        self.nt = False
        self.first = None
        if kind == "cx":
            # a multiplet table holds absolute wavelengths and so belongs to one line: there, a 'line' step re-assigns an equal Line
            self.evs = _sequence(case, keep_line=case["ls"].startswith("multiplet"))
            line0, wl0 = self.line_of(self.evs[0])
            self.kw = _cx_shape(case, wl0)
            cls = BeamCXLine
        else:
            self.evs = _sequence(case)
            line0, wl0 = self.line_of(self.evs[0])
            rv = case["ratio_values"]
            if case["ratios"] == "floats":
                self.kw = {"sigma_to_pi": rv[0], "sigma1_to_sigma0": rv[1], "pi2_to_pi3": rv[2], "pi4_to_pi3": rv[3]}
            elif case["ratios"] == "callables":
                self.kw = {"sigma_to_pi": (lambda n, e: rv[0] + 1e-7 * e), "sigma1_to_sigma0": (lambda n: rv[1]),
                           "pi2_to_pi3": (lambda n: rv[2] + 1e-21 * n), "pi4_to_pi3": (lambda n: rv[3])}
            else:
                self.kw = {}
            cls = BeamEmissionLine
        self.snap_args = repr(self.kw.get("lineshape_args")), repr(self.kw.get("lineshape_kwargs"))
        with ctx.cut("construct"):
            self.b = build(case, self.log, ctx)
            self.model = wire(case, self.b, cls, (line0,), self.kw, ctx)
        self.cur_line = line0
        evs = self.evs
        ctx.label("steps:%d" % (len(evs) - 1) if len(evs) <= 3 else "steps:>=3")
        if kind == "cx":
            ctx.label("meta:%d" % self.nmeta, "ls:" + case["ls"])
            if self.rates.metastables() != sorted(self.rates.metastables()):
                ctx.label("order:shuffled")
            if case["rates"].get("cache_lists"):
                ctx.label("provider:cached-lists")
        else:
            ctx.label("ratios:" + case["ratios"])
        if "rates_class" in case:
            ctx.label("rates:" + case["rates_class"])
        self._zero_labels()
        if any(x["q"] == 0 for x in self.sp):
            ctx.label("neutrals")
        if isinstance(case["beam"]["E"], int):
            ctx.label("E:0" if case["beam"]["E"] == 0 else "E:int")

    def _zero_labels(self):
        """which subset of each family's keys carries an exactly-zero coefficient (function or null object)"""
        case, ctx, r = self.case, self.ctx, self.rates
        dead = r.zero | r.null
        if r.null:
            ctx.label("zeros:null-object")
        ions = [x for x in self.sp if x["q"] >= 1]
        donor = case["beam"]["el"]

        def cls(fam, k, n):
            if k == 0:
                return
            if k == n:
                ctx.label("zeros:%s:all" % fam)
            if n >= 2 and k == n - 1:
                ctx.label("zeros:%s:all-but-one" % fam)
            if 0 < k < n:
                ctx.label("zeros:%s:some" % fam)
        if self.kind == "cx":
            x = self.sp[case["recv"]]
            zm = [m for m in range(1, self.nmeta + 1)
                  if "cx|" + BeamRates.cx_key(donor, m, x["el"], x["q"], case["transition"]) in dead]
            cls("cx", len(zm), self.nmeta)
            if 1 in zm and self.nmeta >= 2:
                ctx.label("zeros:cx:ground")
            live = [y for y in ions if y["n"] > 0]
            for m in range(2, self.nmeta + 1):
                k = sum(1 for y in ions if "pop|" + BeamRates.pop_key(donor, m, y["el"], y["q"]) in dead)
                cls("pop", k, len(ions))
                kl = sum(1 for y in live if "pop|" + BeamRates.pop_key(donor, m, y["el"], y["q"]) in dead)
                if 0 < kl < len(live):
                    ctx.label("zeros:pop:partial-live")       # zero for some but not all species present at the point
        else:
            k = sum(1 for y in ions if "bes|" + BeamRates.bes_key(donor, y["el"], y["q"], (3, 2)) in dead)
            cls("bes", k, len(ions))
            live = [y for y in ions if y["n"] > 0]
            kl = sum(1 for y in live if "bes|" + BeamRates.bes_key(donor, y["el"], y["q"], (3, 2)) in dead)
            if 0 < kl < len(live):
                ctx.label("zeros:bes:partial-live")

    def line_of(self, ev):
        """a fresh Line object for the evaluation (equal to the current one unless a step changes it) and its wavelength"""
        if self.kind == "bes":
            bel = self.case["beam"]["el"]
            return Line(getattr(EL, bel), 0, (3, 2)), self.rates.wavelength(bel, 0, (3, 2))
        r = self.sp[ev["recv"]]
        tr = tuple(ev["transition"])
        return Line(getattr(EL, r["el"]), r["q"] - 1, tr), self.rates.wavelength(r["el"], r["q"] - 1, tr)

    def _emit(self, ev, wl):
        call = Call(ev["at"], wl, self.case["win"])
        with self.ctx.cut("emission"):
            out = call.run(self.model)
        self.ctx.check(call.untouched(), "caller-owned", "emission() modified a point / direction argument")
        return call, out, np.array(out.samples)

    def evaluate(self, i, ev):
        ctx, model, b = self.ctx, self.model, self.b
        line, wl = self.line_of(ev)
        if ev["op"] == "line" or (ev["op"] == "restore" and line != self.cur_line):
            with ctx.cut("line-setter"):
                model.line = line
                g1, g2 = model.line, model.line
            ctx.check(g1 is line and g2 is line, "line-getter", "model.line does not return the assigned Line")
            self.cur_line = line
            if ev["op"] == "line":
                ctx.label("op:line")
        if ev["op"] in ("energy", "restore") and b.beam.energy != float(ev["E"]):
            with ctx.cut("energy-setter"):
                b.beam.energy = ev["E"]
            if ev["op"] == "energy":
                ctx.label("op:energy")
        if self.kind == "cx" and self.sp[ev["recv"]]["el"] in ISOTOPES:
            ctx.label("isotope-receiver")
        del self.log[:]
        call, out, samples = self._emit(ev, wl)
        log = list(self.log)
        if i == 0:
            # the same call twice in a row (fresh spectrum): bit for bit
            _, _, again = self._emit(ev, wl)
            ctx.label("repeat:immediate")
            ctx.check(np.array_equal(again, samples), "repeat-immediate",
                      lambda: "the same call twice in a row differs: max |diff| %r of %r"
                      % (float(np.max(np.abs(again - samples))), float(np.max(np.abs(samples)))))
        if self.kind == "cx":
            nt = _check_cx(self.case, ctx, ev, b, model, call, out, samples, log, self.nmeta, i == 0)
        else:
            nt = _check_bes(self.case, ctx, ev, b, model, call, out, samples, log, i == 0)
        self.nt = nt or self.nt
        if i == 0:
            self.first = (samples.copy(), out, np.array(out.samples))      # result, its Spectrum, content after the additive check
        return samples

    def sequence(self):
        evs = self.evs
        bins0 = evs[0]["at"].get("bins", self.case["win"]["bins"])
        for i, ev in enumerate(evs):
            samples = self.evaluate(i, ev)
            if ev["op"] == "restore":
                self.ctx.label("repeat")
                between = [e["at"].get("bins", self.case["win"]["bins"]) for e in evs[1:-1]]
                if any(x > bins0 for x in between):
                    self.ctx.label("repeat:after-bigger")
                if any(x < bins0 for x in between):
                    self.ctx.label("repeat:after-smaller")
                self._same_as_first(samples, "repeat", "after %d other evaluations" % (len(evs) - 2))
        self.intact()

    def again(self, what, why):
        """the first evaluation once more (the sequence has restored line and energy): bit for bit, nothing else disturbed"""
        ev = dict(self.evs[0])
        ev["op"] = "restore"
        del self.log[:]
        _, wl = self.line_of(ev)
        _, _, samples = self._emit(ev, wl)
        self._same_as_first(samples, what, why)
        self.intact()

    def _same_as_first(self, samples, what, why):
        first = self.first[0]
        self.ctx.check(np.array_equal(samples, first), what,
                       lambda: "%s: first evaluation repeated %s differs: max |diff| %r of %r"
                       % (self.tag, why, float(np.max(np.abs(samples - first))), float(np.max(np.abs(first)))))

    def intact(self):
        ctx = self.ctx
        # what was handed out by the first evaluation is still intact after the later ones
        ctx.check(np.array_equal(np.array(self.first[1].samples), self.first[2]), "aliasing",
                  "%s: the first spectrum changed during later evaluations" % self.tag)
        ctx.check((repr(self.kw.get("lineshape_args")), repr(self.kw.get("lineshape_kwargs"))) == self.snap_args, "caller-owned",
                  "lineshape_args / lineshape_kwargs were modified")
        ctx.check(self.b.ad.lists_intact(), "provider-owned", "a list returned by atomic_data.beam_cx_pec() was modified by the model")


def _run(kind, case, ctx):
    """A alone, or A and a second instance B of the same class (same way of construction, other parameters) interleaved."""
    other, order = case.get("other"), case.get("interf")
    A = Subject(kind, case, ctx, "A")
    if other is None:
        A.sequence()
        nt = A.nt
    elif order == "B-first":
        # A built, B built, B used, then A used for the first time: A must satisfy the oracle as if only A existed
        B = Subject(kind, other, ctx, "B")
        B.sequence()
        A.sequence()
        B.again("interference", "after the other instance was built later but used in between")
        ctx.label("interference:B-first")
        nt = A.nt or B.nt
    else:
        # A used, then B built and used (evaluations, line / energy setters), then A again: exactly as before
        A.sequence()
        B = Subject(kind, other, ctx, "B")
        B.sequence()
        A.again("interference", "after a second instance was built and used")
        B.again("interference", "after the first instance was used again")
        ctx.label("interference:A-B-A")
        nt = A.nt or B.nt
    if other is not None:
        same_line = kind == "bes" or (other["plasma"]["species"][other["recv"]]["el"], other["plasma"]["species"][other["recv"]]["q"],
                                      other["transition"]) == (case["plasma"]["species"][case["recv"]]["el"],
                                                               case["plasma"]["species"][case["recv"]]["q"], case["transition"])
        ctx.label("interference:same-line" if same_line else "interference:other-line")
        na, nb = len(case["plasma"]["species"]), len(other["plasma"]["species"])
        ctx.label("interference:B-more-species" if nb > na else "interference:B-fewer-species" if nb < na else "interference:B-same-species")
    if nt:
        ctx.label("nt")
    ctx.nt(nt)


def run_cx(case, ctx):
    _run("cx", case, ctx)


def _check_cx(case, ctx, ev, b, model, call, out, samples, log, nmeta, is_first):
    sp = case["plasma"]["species"]
    delta = out.delta_wavelength
    got = float(samples.sum() * delta)
    o18 = oracle_cx(case, ev, AMU_2018, False)
    o22 = oracle_cx(case, ev, AMU_2022, False)
    S = o18["S"]
    _plasma_entry_points(ctx, b, S, ev["at"])

    # ---- zero beam or receiver density: nothing is emitted
    if o18["nb"] == 0.0 or o18["nr"] == 0.0:
        ctx.label("zero:beam" if o18["nb"] == 0.0 else "zero:receiver")
        ctx.check(np.all(samples == 0.0), "zero", lambda: "beam density %r, receiver density %r but emission %r"
                  % (o18["nb"], o18["nr"], got))
        return False

    ctx.check(np.all(np.isfinite(samples)), "finite", "non-finite samples")
    _flow_labels(ctx, S, o18["cx_args"][0])

    # ---- total = (1/4pi) n_beam n_receiver q
    want = o18["total"]
    slack = abs(o22["total"] - want)
    floor = 1e-300
    matched = abs(got - want) <= 1e-9 * abs(want) + slack + floor
    if S.nall != S.nion:
        # neutrals with density: 'total ion density' may or may not count them (see ASSUMPTIONS)
        a18, a22 = oracle_cx(case, ev, AMU_2018, True), oracle_cx(case, ev, AMU_2022, True)
        m_all = abs(got - a18["total"]) <= 1e-9 * abs(a18["total"]) + abs(a22["total"] - a18["total"]) + floor
        if abs(a18["total"] - want) > 4e-9 * abs(want) + 2 * slack:
            ctx.label("nion:counts-neutrals" if m_all and not matched else "nion:ions-only" if matched else "nion:neither")
        if m_all and not matched:
            o18, o22, want, slack, matched = a18, a22, a18["total"], abs(a22["total"] - a18["total"]), True
    if not matched:
        ctx.fail("total", "integrated CX emission %r, expected (1/4pi) n_b n_r q = %r (n_b %r, n_r %r, q %r, q_m %r, k_m %r, "
                 "E_int %r, T_r %r, n_ion %r, Zeff %r, |B| %r); rel. err %.3g; evaluation op=%r"
                 % (got, want, o18["nb"], o18["nr"], o18["q"], o18["qs"], o18["ks"], o18["cx_args"][0], o18["cx_args"][1],
                    o18["cx_args"][2], o18["cx_args"][3], o18["cx_args"][4], abs(got - want) / max(abs(want), 1e-300), ev["op"]))

    # ---- q lies between the smallest and the largest individual coefficient
    q_got = got * 4.0 * math.pi / (o18["nb"] * o18["nr"])
    qlo = min(min(o18["qs"].values()), min(o22["qs"].values()))
    qhi = max(max(o18["qs"].values()), max(o22["qs"].values()))
    ctx.check(qlo * (1 - 1e-9) <= q_got <= qhi * (1 + 1e-9), "bounds",
              lambda: "composite coefficient %r outside [min, max] = [%r, %r] of the individual ones %r" % (q_got, qlo, qhi, o18["qs"]))
    if nmeta >= 2 and qhi > qlo * (1 + 1e-6):
        pos = (q_got - qlo) / (qhi - qlo)
        ctx.label("bounds:interior" if 1e-6 < pos < 1 - 1e-6 else "bounds:edge")

    # ---- arguments the coefficients were evaluated at
    cx_calls = [(k, a) for f, k, a in log if f == "cx"]
    ctx.check(len(cx_calls) >= nmeta, "cx-calls", "only %d of %d metastable coefficients were evaluated" % (len(cx_calls), nmeta))
    names = ("interaction energy", "receiver temperature", "total ion density", "Z-effective", "|B|")
    for key, a in cx_calls:
        for i in range(5):
            w = o18["cx_args"][i]
            if i == 0:
                ctx.close(a[0], w, "cx-arg-energy", rtol=1e-9, atol=2e-9 * o18["e_scale_r"] + 1e-290, scale=abs(w), info="(%s)" % key)
            elif i == 2 and S.nall != S.nion:     # either reading of 'total ion density' (see ASSUMPTIONS)
                ctx.check(abs(a[2] - S.nion) <= 1e-9 * S.nion or abs(a[2] - S.nall) <= 1e-9 * S.nall, "cx-arg",
                          lambda: "(%s: total ion density) got %r, ions %r, all species %r" % (key, a[2], S.nion, S.nall))
            else:
                ctx.close(a[i], w, "cx-arg", rtol=1e-9, atol=1e-300, info="(%s: %s)" % (key, names[i]))
    _check_rate_args(ctx, log, "pop", o18["pop_args"], "pop-arg")

    # ---- a second call adds the same line again (first evaluation only: its spectrum is not compared again)
    if not is_first:
        return nmeta >= 2 and _flowing(S) >= 2
    with ctx.cut("emission"):
        out2 = call.run(model)
    ctx.close(np.array(out2.samples), 2 * samples, "additive", rtol=1e-12)
    return nmeta >= 2 and _flowing(S) >= 2


# ----------------------------------------------------------------------------------------------- BES
def run_bes(case, ctx):
    _run("bes", case, ctx)


def _check_bes(case, ctx, ev, b, model, call, out, samples, log, is_first):
    got = float(samples.sum() * out.delta_wavelength)
    o18 = oracle_bes(case, ev, AMU_2018)
    o22 = oracle_bes(case, ev, AMU_2022)
    S = o18["S"]
    _plasma_entry_points(ctx, b, S, ev["at"])
    ctx.label("ions:%d" % sum(1 for s in S.ions if s["n"] > 0))

    if o18["nb"] == 0.0 or S.s1 == 0.0:
        ctx.label("zero:beam" if o18["nb"] == 0.0 else "zero:ions")
        ctx.check(np.all(samples == 0.0), "zero", lambda: "beam density %r, ion charge density %r but emission %r" % (o18["nb"], S.s1, got))
        return False

    ctx.check(np.all(np.isfinite(samples)), "finite", "non-finite samples")
    e_min = min(a[0][0] for a in o18["args"].values() if a[1])
    _flow_labels(ctx, S, e_min)
    want = o18["total"]
    slack = abs(o22["total"] - want)
    if not abs(got - want) <= 1e-9 * abs(want) + slack + 1e-300:
        ctx.fail("total", "integrated beam emission %r, expected (1/4pi) n_b sum_i Z_i n_i q_i = %r (n_b %r, species %r, "
                 "args per species %r); rel. err %.3g; evaluation op=%r"
                 % (got, want, o18["nb"], [(s["el"], s["q"], s["n"]) for s in S.ions], o18["args"],
                    abs(got - want) / max(abs(want), 1e-300), ev["op"]))
    _check_rate_args(ctx, log, "bes", o18["args"], "bes-arg")
    if any(s["q"] >= 2 and s["n"] > 0 for s in S.ions):
        ctx.label("Z>=2")
    if is_first:
        with ctx.cut("emission"):
            out2 = call.run(model)
        ctx.close(np.array(out2.samples), 2 * samples, "additive", rtol=1e-12)
    return _flowing(S) >= 2


# ----------------------------------------------------------------------------------------------- through the scene graph
# The models are normally reached through BeamMaterial.emission_function (ray tracing): it turns a point and a viewing direction
# given in beam space into the (beam point, plasma point, beam direction, observation direction) of the statement.  Relation:
# with beam and plasma placed by generated transforms (plasma rotated, optionally below an intermediate node), the material must
# give exactly what the model gives when handed the plasma-space quantities computed with my own matrices.
def _rot(axis, a):
    c, s_ = math.cos(math.radians(a)), math.sin(math.radians(a))
    m = np.eye(4)
    i, j = {"x": (1, 2), "y": (2, 0), "z": (0, 1)}[axis]
    m[i, i], m[i, j], m[j, i], m[j, j] = c, -s_, s_, c
    return m


def _own_matrix(t, r):
    m = np.eye(4)
    m[:3, 3] = t
    return m @ _rot("z", r[2]) @ _rot("y", r[1]) @ _rot("x", r[0])


def _ray_matrix(t, r):
    from raysect.core import translate, rotate_x, rotate_y, rotate_z
    return translate(*t) * rotate_z(r[2]) * rotate_y(r[1]) * rotate_x(r[0])


def strategy_scene():
    @st.composite
    def s(draw):
        case = draw(strategy_cx() if draw(st.booleans()) else strategy_bes())
        case["scene_kind"] = "cx" if "recv" in case else "bes"
        case.pop("other", None), case.pop("interf", None)
        case["wire"] = "beam.models"
        ang = st.sampled_from([0.0, 30.0, -75.0, 90.0, 180.0, 17.5])
        tr = st.floats(-1.0, 1.0)
        case["scene"] = {"pt": [draw(tr) for _ in range(3)], "pr": [draw(ang) for _ in range(3)],
                         "bt": [draw(tr) for _ in range(3)], "br": [draw(ang) for _ in range(3)],
                         "node": draw(st.one_of(st.none(), st.tuples(st.lists(tr, min_size=3, max_size=3), st.lists(ang, min_size=3, max_size=3)))),
                         "dir": [draw(st.floats(-1.0, 1.0)) for _ in range(3)]}
        return case
    return s()


def run_scene(case, ctx):
    from raysect.optical import World
    from raysect.core import Node
    from cherab.core.beam.material import BeamMaterial
    kind = case["scene_kind"]
    A = Subject(kind, case, ctx, "A")
    b, model = A.b, A.model
    sc = case["scene"]
    world = World()
    with ctx.cut("scene"):
        pparent = Node(parent=world, transform=_ray_matrix(*sc["node"])) if sc["node"] else world
        b.plasma.parent = pparent
        b.plasma.transform = _ray_matrix(sc["pt"], sc["pr"])
        b.beam.parent = world
        b.beam.transform = _ray_matrix(sc["bt"], sc["br"])
        if model not in list(b.beam.models):
            b.beam.models = [model]
        prims = [c for c in b.beam.children if isinstance(getattr(c, "material", None), BeamMaterial)]
    ctx.check(len(prims) == 1, "scene-material", "beam has %d primitives carrying a BeamMaterial" % len(prims))
    prim = prims[0]
    p2w = (_own_matrix(*sc["node"]) if sc["node"] else np.eye(4)) @ _own_matrix(sc["pt"], sc["pr"])
    b2p = np.linalg.inv(p2w) @ _own_matrix(sc["bt"], sc["br"])
    ev = A.evs[0]
    _, wl = A.line_of(ev)
    at = ev["at"]
    bp = np.array(list(at["bp"]) + [1.0])
    d = list(sc["dir"])
    if math.sqrt(sum(x * x for x in d)) < 1e-3:
        d = [0.3, -0.4, 0.5]
    pp = b2p @ bp
    with ctx.cut("Beam.direction"):
        bd = b.beam.direction(*at["bp"])
    bd_p = b2p @ np.array([bd.x, bd.y, bd.z, 0.0])
    ob_p = b2p @ np.array(d + [0.0])
    win = case["win"]

    def spectrum():
        return Spectrum(wl * (1 - win["half"]), wl * (1 + win["half"]), at.get("bins", win["bins"]))
    with ctx.cut("emission"):
        want = np.array(model.emission(Point3D(*at["bp"]), Point3D(*pp[:3]), Vector3D(*bd_p[:3]), Vector3D(*ob_p[:3]), spectrum()).samples)
    with ctx.cut("BeamMaterial.emission_function"):
        got = np.array(prim.material.emission_function(Point3D(*at["bp"]), Vector3D(*d), spectrum(), world, None, prim,
                                                       prim.to_local(), prim.to_root()).samples)
    scale = float(np.max(np.abs(want))) if want.size else 0.0
    ctx.close(got, want, "scene-graph", rtol=1e-9, atol=1e-300, scale=scale,
              info="(BeamMaterial.emission_function vs model.emission with plasma-space arguments from my own matrices; plasma rotation %r, beam rotation %r)"
              % (sc["pr"], sc["br"]))
    flows = any(any(c != 0.0 for c in x["v"]) and x["n"] > 0 for x in case["plasma"]["species"])
    rotated = any(a != 0.0 for a in sc["pr"]) or (sc["node"] is not None and any(a != 0.0 for a in sc["node"][1]))
    ctx.label("scene:" + kind)
    if flows and rotated and scale > 0:
        ctx.label("scene:rotated-plasma-with-flow")
    ctx.nt(flows and rotated and scale > 0)


SUBCHECKS = {
    "cx": Given(strategy_cx, run_cx, quick=2000, thorough=40000),
    "bes": Given(strategy_bes, run_bes, quick=1200, thorough=25000),
    "scene": Given(strategy_scene, run_scene, quick=600, thorough=12000),
}
