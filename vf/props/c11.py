"""C11 - inversion solvers: SART follows its documented update rule, NNLS / LSQ / SVD return true minimisers."""
import warnings

import numpy as np
import scipy.optimize
from hypothesis import strategies as st

from ..core import Given, deep
from ..findings import is_open

from cherab.tools.inversions import (invert_sart, invert_constrained_sart, invert_regularised_nnls,
                                     invert_regularised_lstsq, invert_svd)

warnings.filterwarnings("ignore", category=RuntimeWarning)     # overflow / invalid warnings of deliberately extreme inputs

ID = "C11"
SHARDS = {"quick": 8, "thorough": 16}
RULE = ("One case = one solver call on a drawn (W, b, parameters). W is m x n with m, n in 1..12 (under-, over-determined and "
        "square), entries >= 0 drawn from {0 (sparse), k/8, floats in [0.01, 1]}; then exact "
        "structure is imposed: zeroed rows, zeroed columns, columns overwritten by {1, 2, 0.5} x another column and duplicated "
        "rows (exact rank deficiency); the whole of W is then multiplied by an overall scale (1 in half of the draws, else 2^k, "
        "|k| <= 100, or 10^e, |e| <= 30: small / large physical units) and in a quarter of the float64 draws one voxel is only "
        "grazed: a single entry (optionally the only one of its column) is set to a weight 1e-13 ... 1e-300 or a subnormal. b "
        "gets its own independent overall scale from the same distribution, a float64 initial guess the natural one max|b|/max W, "
        "1 or an independent one. b is 'consistent' (W x_true with up to 10% multiplicative noise), 'random' non-negative, "
        "'mixed_sign' (>=1 positive and >=1 negative entry) or, for lstsq/svd only, all zero. SART: initial guess None / float / "
        "int / array (a few arrays with negative entries), relaxation (0, 1.5], beta_laplace [0, 0.2], Laplacian identity / 1-D "
        "(Neumann or Dirichlet) / 2-D 4- or 8-neighbour / random, max_iterations 1..60, conv_tol in {0, 1e-8..1e-1}, plus calls "
        "that rely on the documented defaults. NNLS / LSQ: alpha = +-10^e, e in [-3, 1] (a third negative), or one of -0.0, 0.0, "
        "+-1e-300, +-1e-30, +-1e30, +-1e100; the certificates use alpha^2 (stacked matrix built with alpha itself, C^T C is the "
        "same); in half of the cases one more call with -alpha on the same objects must be certified too and return the "
        "bit-identical solution and residual; Tikhonov matrix None / identity / "
        "Laplacians / random. Scale equivariance (a third of the cases, c = 2^k, |k| <= 60): SART(cW, cb, x0) = SART(W, b, x0) "
        "and SART(W, cb, c x0) = c SART(W, b, x0) with an unchanged convergence list; solve(W, cb) = c solve(W, b) and "
        "solve(cW, cb; c alpha) = solve(W, b; alpha) for nnls / lstsq / svd; the second solve uses the same dtypes-free float64 data "
        "in the same memory layout, results must be bit-identical (else inside a conditioning bound). Input forms (only those the functions accept on the unchanged tree): for nnls / lstsq / svd W is "
        "float64, float32, int64, int32 (0/1 incidence or small hit counts) or bool, b is float64, float32, int64 or int32, the "
        "Tikhonov matrix float64, float32, int64, int32 or bool (identity / random 0-1), each C-ordered, Fortran-ordered or a "
        "non-contiguous strided view; every result is certified against the float64 copy of exactly the numbers those arrays "
        "hold. SART takes float64 W and b only (other dtypes raise in the typed memoryviews: outside the domain) in C / F / "
        "strided layout, a Laplacian of any of the dtypes above, and the initial guess as float64 / float32 / int64 / int32 "
        "array or plain list. Reuse relation: about half of the cases make 2 or 3 calls (drawn) with the SAME Python objects "
        "(geometry matrix, measurement vector, user-supplied Laplacian / Tikhonov matrix, initial-guess array) and drawn overrides "
        "of relaxation / beta_laplace / max_iterations resp. alpha ({} = identical repeat); every call is certified against "
        "pristine copies of the inputs taken before the first call, and after each call every caller-owned array must be "
        "bit-identical to its copy (`inputs-unmodified`, reported after all calls were certified). Non-trivial: sart = at least 2 iterations were executed AND (a cell was clipped at zero, or W has a "
        "zero row / zero column / is rank deficient, or the Laplacian penalty is active (beta > 0)); sart_fixed = the exact "
        "solution has zero and positive entries, or W has a zero row/column or rank < n (solution not unique); nnls = W rank "
        "deficient or with zero row/column, or an active constraint (x_i = 0 with gradient g_i > eps); lstsq = W rank deficient or "
        "with a zero row/column, or the stacked matrix itself rank deficient; svd = rank(W) < n or zero row/column. Distinct = "
        "distinct JSON case.")
ASSUMPTIONS = [
    "SART reference = the docstring formula x_l + w/W(+,l) * sum_k W(k,l)/W(k,+) (Phi_k - Phi_hat_k) evaluated with the previous "
    "iterate for all cells (simultaneous), minus beta_L * (L x_prev)_l in the constrained variant, then clipped at 0",
    "terms with W(k,+) = 0 (zero-length ray) are dropped from the sum and a cell with W(+,l) = 0 keeps its value (minus the "
    "Laplacian penalty): the only finite reading of the 0/0 terms of the documented formula; the source comments say the same",
    "where the docs are silent the implementation is the spec: default initial guess exp(-1) for every cell; the convergence "
    "number of an iteration is (|b|^2 - |W x_new|^2) / |b|^2 (docs: 'normalised squared difference between the measurement and "
    "solution vectors'); the loop stops after iteration k >= 1 (0-based) when |conv[k] - conv[k-1]| < conv_tol or after "
    "max_iterations; the second return value is the list of convergence numbers (docs say 'a float')",
    "an all-zero measurement vector (SART: ZeroDivisionError in the convergence number; NNLS: division by max(b) = 0, also for b "
    "<= 0 everywhere) is not generated: the code neither documents nor handles it (reported to the lead as an observation)",
    "no docstring of the five solvers declares any argument to be modified in place, so geometry matrix, measurement vector, "
    "Laplacian / Tikhonov matrix AND the initial_guess array are all subject to `inputs-unmodified`; the SART solvers do "
    "overwrite (and return) the initial_guess array: open finding C11-sart-guess-inplace. While it is open every call gets a fresh "
    "copy of the pristine guess (label known:guess_array_copied_per_call) and the guess array is exempt; the stored probe "
    "passes the same array twice and fails",
    "nnls / lstsq copy W and b into float64 arrays, so float32 / integer / bool data are exact there and get the full float64 "
    "certificate; alpha * tikhonov_matrix is formed by numpy in the dtype of the matrix when that is float32, i.e. the "
    "regularisation block is rounded to float32: accepted as the code's arithmetic, certificate widened by the derived bound "
    "(TOLERANCES 'float32 Tikhonov matrix'); integer and bool Tikhonov matrices are promoted to float64 and get the full certificate",
    "invert_svd hands W to scipy.linalg.pinv, which works in single precision for float32 and bool matrices (scipy's documented "
    "type promotion) and in double precision for float64 / int32 / int64: float32 / bool W therefore get a single-precision "
    "certificate (label precision:single), int32 / int64 W the full one; float16, int8/16 and uint8 inputs are not generated",
    "SART input forms: lists / non-float64 arrays for geometry_matrix and measurement_vector raise (typed memoryviews, no "
    "attribute shape) and are outside the domain; numpy scalar guesses (np.float32(1)) raise as well and are not generated",
    "scaling by 2^k is exact in every intermediate as long as all non-zero magnitudes (inputs, scaled inputs, first result) stay in "
    "[1e-100, 1e100]; equivariance is only tested then (label equiv:skipped_range otherwise, e.g. with a 1e-300 voxel)",
    "sums W(k,+) / W(+,l) below 5.56e-309 (subnormal; their reciprocal overflows) make the SART solvers return nan: open finding "
    "C11-sart-subnormal-sum-overflow, that input class is labelled excluded_known and not judged while it is open; when the literal "
    "evaluation of the update rule itself overflows (reference not finite) the case is inconclusive",
    "nnls / lstsq / svd: when the smallest singular value the solver keeps is below 1e-290 the pseudo-inverse (1/sigma) and "
    "possibly the minimiser exceed the largest double; such cases are skipped (label skipped:pseudo_inverse_not_representable)",
    "numpy.linalg.svd / norm / dot are trusted for the certificates (gradient, residual, null-space projector)",
    "scipy.optimize.nnls raising RuntimeError('Maximum number of iterations reached') is counted as inconclusive for that case",
    "while finding C11-nnls-scipy-nonoptimal is open, nnls cases on which scipy.optimize.nnls itself (called directly on the "
    "documented system [W; alpha L]/max(b), [b; 0]/max(b)) returns a point violating the same KKT certificate are labelled "
    "excluded_known and not judged (about 0.03% of the cases: zero column of W + diagonal Tikhonov matrix); the stored probe "
    "bypasses this gate",
]
TOLERANCES = {
    "sart x / convergence list": "1e-10 * scale; same arithmetic on both sides up to summation order. scale = largest |x| over all "
                                 "iterates of the reference and largest sum of absolute update terms w/W(+,l) * sum_k |W(k,l)/W(k,+) "
                                 "(Phi_k - Phi_hat_k)| (terms of both signs may cancel exactly in one summation order only); for the convergence numbers 1 - |W x|^2/|b|^2 the scale is max(1, |conv|, "
                                 "sqrt(1+|conv|) * |W|_F * max|x| / |b|), the first-order propagation of a relative error in x. A case is compared only if two reference "
                                 "evaluations with different summation order (sequential loops vs. vectorised) agree to 1e-12 * "
                                 "scale and on the iteration count (measured conditioning, 100x margin); otherwise it is labelled "
                                 "inconclusive:ill_conditioned. A stop decision closer to conv_tol than 1e-10 x the a-priori error scale of the "
                                 "convergence numbers, or than 1000 x the measured difference of the "
                                 "convergence numbers between the two summation orders (+ 1e-12 relative) is labelled "
                                 "inconclusive:stop_ambiguous",
    "scale": "every tolerance is relative to the magnitudes of the case (|C|, |x|, |d|, largest iterate, summed update terms), so it "
             "follows the overall scales; norms and eps are evaluated without squaring (no under / overflow for 1e+-160 entries)",
    "scale equivariance": "bit-identical expected (observed: always, once the second call uses the same memory layout); fallback "
                          "SART: 1e-10 * scale of the first call; linear solvers: 1e-12 * kappa(C)^2 * (|x| + |d|/|C|), only for a "
                          "clearly full-rank stacked matrix",
    "sart fixed point": "1e-11 * max|x*|: per iteration the update is bounded by relaxation * n * u * max|x*| (rounding of W x* "
                        "only) plus beta * |L| * u * max|x*|; 60 iterations * 1.5 * 12 * 1.1e-16 = 1.2e-13",
    "eps (gradient)": "nnls / lstsq: 1e-12 * (|C|_2^2 |x|_2 + |C|_2 |d|_2). Householder-QR (Lawson-Hanson) and SVD (gelsd) solvers are "
                      "backward stable: a-priori c*u*(...) with c ~ (m+n)*n <= 300, i.e. 7e-14, independent of the conditioning (a "
                      "truncated singular value is <= 5e-15 |C|); largest value measured on the unchanged tree over 10 000 cases: "
                      "3.1e-15. 1e-12 keeps 300x room and still exposes single-precision arithmetic (6e-8). It was 1e-8 before the "
                      "measured miss of a float32-allocated stacked matrix. svd wrapper: 1e-8 * (|W|^2 |x| + |W| |b|), because the "
                      "explicit product pinv(W) b is only accurate to u * kappa and kappa is allowed up to 1e7",
    "complementarity": "|g_i| x_i <= eps * max(x): implied by |g_i| <= eps on the support",
    "rnorm": "|rnorm - |Cx-d|| <= 1e-12 * (|C||x| + |d|); lstsq residuals[0] vs |Cx-d|^2 <= 1e-12 * (|C||x| + |d|)^2 (measured: 9e-16, 1.1e-15)",
    "float32 Tikhonov matrix": "the code solves with fl32(alpha L) = alpha L (1 + delta), |delta| <= 2^-24, hence |E x| <= sl := 2^-24 alpha "
                               "|L|_F |x| for the perturbation E of the stacked matrix; gradient tolerance eps + 3 alpha |L|_F sl, "
                               "rnorm tolerance + sl, residuals tolerance + sl (2 scale + sl)",
    "svd single precision": "float32 / bool W (pinv computed in float32): |W^T(Wx-b)| <= 10 * 2^-24 * kappa * (|W|^2 |x| + |W| |b|) and "
                            "null-space component <= 10 * 2^-24 * kappa * (|x| + |b|/sigma_r), kappa = sigma_max/sigma_r of the float64 "
                            "data (Wedin bound for the pseudo-inverse of W + dW, |dW| ~ 2^-24 |W|, plus the explicit product P b), "
                            "10 = dimension constant for n <= 12 (largest observed ratio to the bare bound: 2.4); rank decided at 1e-4 sigma_max (pinv cut-off 12 * 1.2e-7), cases "
                            "with a singular value in [1e-14, 1e-4] sigma_max are inconclusive",
    "minimum norm (svd)": "|P_null(W) x| <= 1e-8 |x|, rank decided at 1e-7 * sigma_max, cases with a singular value in "
                          "[1e-14, 1e-7] * sigma_max labelled rank_ambiguous and not checked for minimum norm",
}
REQUIRED_LABELS = [
    "sart:variant:plain", "sart:variant:constrained", "sart:W:zero_row", "sart:W:zero_col", "sart:W:rank_deficient",
    "sart:clipped", "sart:guess:none", "sart:guess:array", "sart:guess:float", "sart:guess:int", "sart:stop:conv_tol",
    "sart:stop:max_iterations", "sart:b:mixed_sign", "sart:params:defaults", "sart:shape:under", "sart:shape:over",
    "sart_fixed:variant:plain", "sart_fixed:variant:constrained", "sart_fixed:beta>0",
    "nnls:active_constraint", "nnls:W:rank_deficient", "nnls:W:zero_col", "nnls:W:zero_row", "nnls:b:mixed_sign",
    "nnls:L:none", "nnls:L:random", "nnls:shape:under", "nnls:shape:over",
    "lstsq:W:rank_deficient", "lstsq:b:zero", "lstsq:b:mixed_sign", "lstsq:residuals:reported",
    "svd:W:rank_deficient", "svd:b:zero", "svd:shape:under", "svd:shape:over",
    # reuse relation: 2 and 3 calls on the same Python objects, with and without a changed parameter
    "sart:reuse:edited-in-place", "sart:reuse:2", "sart:reuse:3", "sart:reuse:param_changed", "sart:reuse:same_params", "sart_fixed:reuse:2", "sart_fixed:reuse:3",
    "nnls:reuse:2", "nnls:reuse:3", "nnls:reuse:param_changed", "lstsq:reuse:2", "lstsq:reuse:3", "lstsq:reuse:param_changed",
    "svd:reuse:2", "svd:reuse:3",
    # input forms: dtypes / memory layouts the solvers accept on the unchanged tree
] + ["%s:dtype:%s=%s" % (sub, a, d) for sub in ("nnls", "lstsq") for a, ds in
     (("W", ("float32", "int64", "int32", "bool")), ("b", ("float32", "int64", "int32")), ("L", ("float32", "int64", "int32", "bool")))
     for d in ds] + \
    ["svd:dtype:%s=%s" % (a, d) for a, ds in (("W", ("float32", "int64", "int32", "bool")), ("b", ("float32", "int64", "int32")))
     for d in ds] + \
    ["%s:layout:%s=%s" % (sub, a, l) for sub in ("nnls", "lstsq", "svd", "sart") for a, ls in
     (("W", ("F", "strided")), ("b", ("strided",))) for l in ls] + \
    ["nnls:layout:L=strided", "lstsq:layout:L=strided", "nnls:layout:L=F", "lstsq:layout:L=F", "svd:precision:single",
     "nnls:precision:L_float32", "lstsq:precision:L_float32",
     "sart:dtype:L=float32", "sart:dtype:L=int64", "sart:dtype:L=int32", "sart:layout:L=strided",
     "sart:guess:float32", "sart:guess:int64", "sart:guess:int32", "sart:guess:list"] + \
    ["%s:%s" % (sub, lab) for sub, labs in (      # overall scales 1e-30 ... 1e30, grazed voxels, scale equivariance
        ("sart", ("scale:W<=1e-13", "scale:W>=1e13", "scale:b<=1e-13", "scale:b>=1e13", "W:colsum<=1e-12", "W:grazed_voxel",
                  "W:small_units", "W:subnormal", "equiv:Wb", "equiv:b", "equiv:bit_exact")),
        ("sart_fixed", ("scale:W<=1e-13", "scale:W>=1e13", "W:grazed_voxel", "W:small_units")),
        ("nnls", ("scale:W<=1e-13", "scale:W>=1e13", "scale:b<=1e-13", "scale:b>=1e13", "W:grazed_voxel", "W:small_units",
                  "equiv:Wb", "equiv:b", "equiv:bit_exact")),
        ("lstsq", ("scale:W<=1e-13", "scale:W>=1e13", "W:grazed_voxel", "W:small_units", "equiv:Wb", "equiv:b", "equiv:bit_exact")),
        ("svd", ("scale:W<=1e-13", "W:small_units", "equiv:Wb", "equiv:b", "equiv:bit_exact"))) for lab in labs] + \
    ["%s:%s" % (sub, lab) for sub in ("nnls", "lstsq")
     for lab in ("alpha:negative", "alpha:zero", "alpha:tiny", "alpha:huge", "neg:called", "neg:bit_exact")]

U = 2.0 ** -52
DEFAULTS = {"max_it": 250, "relax": 1.0, "conv_tol": 1.0e-4, "beta": 0.01, "alpha": 0.01}   # documented defaults


# ------------------------------------------------------------------------------------------------ strategies
_dim = st.one_of(st.integers(1, 4), st.integers(1, 12), st.integers(1, deep(12, 40)))
_entry = st.one_of(st.just(0.0), st.integers(0, 16).map(lambda k: k / 8.0), st.floats(0.01, 1.0))
_dense_entry = st.one_of(st.integers(1, 16).map(lambda k: k / 8.0), st.floats(0.01, 1.0))
_FACTOR = st.sampled_from([1.0, 1.0, 2.0, 0.5])


_count_entry = st.sampled_from([0.0, 0.0, 1.0, 1.0, 2.0, 3.0, 5.0])          # hit counts
_binary_entry = st.sampled_from([0.0, 1.0, 1.0])                               # 0/1 incidence matrix
_LAYOUT2 = st.sampled_from(["C", "C", "C", "F", "strided"])
_LAYOUT1 = st.sampled_from(["C", "C", "strided"])
_W_DTYPE = st.sampled_from(["float64", "float64", "float64", "float32", "int64", "int32", "bool"])
_B_DTYPE = st.sampled_from(["float64", "float64", "float64", "float32", "int64", "int32"])
_L_DTYPE = st.sampled_from(["float64", "float64", "float64", "float32", "int64", "int32", "bool"])


# overall scale of a whole array: 1 (half of the draws), an exact power of two or a power of ten, 1e-30 ... 1e30
_SCALE = st.one_of(st.just(1.0), st.just(1.0), st.integers(-100, 100).map(lambda k: 2.0 ** k),
                   st.floats(-30.0, 30.0).map(lambda e: 10.0 ** e))
_SCALE32 = st.one_of(st.just(1.0), st.integers(-80, 80).map(lambda k: 2.0 ** k))       # stays inside the float32 range
# weight of a voxel that is only grazed: normal numbers down to 1e-300 and subnormals
_TINY = st.one_of(st.floats(13.0, 300.0).map(lambda e: 10.0 ** -e), st.sampled_from([3e-13, 1e-13, 1e-300, 2.3e-308, 1e-310, 5e-324]))
_EQUIV = st.one_of(st.none(), st.none(),
                   st.fixed_dictionaries({"kind": st.sampled_from(["Wb", "b", "b"]),
                                          "k": st.one_of(st.integers(-60, 60), st.sampled_from([-45, -40, 40, 45]))}))


@st.composite
def w_matrix(draw, dtype="float64"):
    """entries as floats; for integer / bool dtypes every entry is an exactly representable count / 0-1 value."""
    m, n = draw(_dim), draw(_dim)
    integral = dtype in ("int64", "int32", "bool")
    if dtype == "bool":
        ent = _binary_entry
    elif integral:
        ent = draw(st.sampled_from([_binary_entry, _count_entry]))
    else:
        ent = draw(st.sampled_from([_entry, _entry, _dense_entry]))
    _factor = st.just(1.0) if dtype == "bool" else (st.sampled_from([1.0, 2.0]) if integral else _FACTOR)
    w = [[draw(ent) for _ in range(n)] for _ in range(m)]
    if draw(st.booleans()):                                                 # exact rank deficiency / degenerate structure
        if n > 1:
            for _ in range(draw(st.integers(0, 2))):                         # column dst := f * column src
                src, dst, f = draw(st.integers(0, n - 1)), draw(st.integers(0, n - 1)), draw(_factor)
                if src != dst:
                    for r in w:
                        r[dst] = f * r[src]
        if m > 1 and draw(st.integers(0, 3)) == 0:                           # duplicated row
            src, dst = draw(st.integers(0, m - 1)), draw(st.integers(0, m - 1))
            w[dst] = list(w[src])
        for i in draw(st.sets(st.integers(0, m - 1), max_size=2)):           # zero rows (ray misses the grid)
            w[i] = [0.0] * n
        for j in draw(st.sets(st.integers(0, n - 1), max_size=2)):           # zero columns (cell seen by no ray)
            for r in w:
                r[j] = 0.0
    s = 1.0 if integral else draw(_SCALE32 if dtype == "float32" else _SCALE)
    w = [[v * s for v in r] for r in w]
    if dtype == "float64" and draw(st.integers(0, 3)) == 0:                   # one voxel that is only grazed by a ray
        i, j, t = draw(st.integers(0, m - 1)), draw(st.integers(0, n - 1)), draw(_TINY)
        if draw(st.booleans()):                                              # ... and seen by nothing else
            for r in w:
                r[j] = 0.0
        w[i][j] = t
    return w


def _signed(hi):
    return st.one_of(st.just(0.0), st.floats(1e-3, hi), st.floats(1e-3, hi).map(lambda v: -v))


def _nonneg_vec(n, hi=10.0):
    # magnitudes are 0 or >= 1e-3: no subnormal / underflowing data (|b|^2 and 1/max(b) must stay finite)
    return st.lists(st.one_of(st.just(0.0), st.floats(1e-3, hi), st.integers(0, 8).map(float)), min_size=n, max_size=n)


@st.composite
def b_vector(draw, w, kinds, dtype="float64"):
    m, n = len(w), len(w[0])
    kind = draw(st.sampled_from(kinds))
    integral = dtype in ("int64", "int32")
    s = draw(_SCALE)                                                         # independent of the scale of W
    if kind == "zero":
        return {"kind": kind, "v": [0.0] * m}
    if kind == "consistent":
        xt = draw(_nonneg_vec(n))
        noise = draw(st.one_of(st.just([0.0] * m), st.lists(st.floats(-0.1, 0.1), min_size=m, max_size=m)))
        b = [sum(w[i][j] * xt[j] for j in range(n)) * (1.0 + noise[i]) for i in range(m)]
    elif kind == "random":
        b = draw(_nonneg_vec(m))
    else:                                                                    # mixed_sign
        b = draw(st.lists(_signed(10.0), min_size=m, max_size=m))
        if m > 1 and not any(v < 0 for v in b):
            b[-1] = -1.0 - abs(b[-1])
        if m == 1:
            kind = "random"
    b = [v * s for v in b]
    top = max(abs(v) for v in b)
    if integral or dtype == "float32":                                      # keep inside the range of the dtype
        if top > 0 and not 1e-2 <= top <= 1e6:
            b = [v / top * 100.0 for v in b]
        s = 1.0
    if integral:                                                             # integer measurements (counts)
        b = [float(round(v)) for v in b]
        if kind == "mixed_sign" and not any(v < 0 for v in b):
            kind = "random"
    if not any(v > 1e-140 for v in b):          # main classes: at least one positive entry whose square does not underflow
        b[0] = 1.0 + abs(b[0]) if integral else max(s * (1.0 + abs(b[0])), 1e-140)
    return {"kind": kind, "v": b}


def _divisors(n):
    return [r for r in range(1, n + 1) if n % r == 0]


@st.composite
def l_spec(draw, n, allow_none, dtypes=True):
    """Laplacian / Tikhonov matrix: kind + dtype + memory layout of the array handed to the solver."""
    dtype = draw(_L_DTYPE) if dtypes else "float64"
    if dtype == "bool":
        kinds = ["identity", "random"]                                       # the Laplacians have negative entries
    else:
        kinds = ["identity", "lap1d", "lap2d", "random"] + (["none"] if allow_none else [])
    kind = draw(st.sampled_from(kinds))
    if kind == "none":
        return {"kind": kind}
    spec = {"kind": kind, "dtype": dtype, "layout": draw(_LAYOUT2) if dtypes else "C"}
    if kind == "lap1d":
        spec["bc"] = draw(st.sampled_from(["neumann", "dirichlet"]))
    elif kind == "lap2d":
        spec["rows"] = draw(st.sampled_from(_divisors(n)))
        spec["diag"] = draw(st.booleans())
    elif kind == "random":
        if dtype == "bool":
            e = st.sampled_from([0.0, 1.0])
        elif dtype in ("int64", "int32"):
            e = st.integers(-3, 3).map(float)
        else:
            e = st.one_of(st.just(0.0), st.integers(-8, 8).map(lambda k: k / 8.0), _signed(1.0))   # no subnormals
        spec["M"] = [[draw(e) for _ in range(n)] for _ in range(n)]
    return spec


_conv_tol = st.one_of(st.sampled_from([0.0, 1e-8, 1e-6, 1e-4, 1e-4, 1e-3, 1e-2, 1e-1]),
                      st.floats(-8.0, -1.0).map(lambda e: 10.0 ** e))
_relax = st.one_of(st.just(1.0), st.floats(0.05, 1.5))


def _reuse(draw, override):
    """extra calls on the SAME Python objects: list of 0..2 parameter overrides ({} = identical repeat)."""
    return [draw(override) for _ in range(draw(st.sampled_from([0, 0, 1, 1, 1, 2])))]


_sart_override = st.fixed_dictionaries({}, optional={"relax": _relax, "beta": st.floats(0.0, 0.2), "max_it": st.integers(1, 60)})
_fixed_override = st.fixed_dictionaries({}, optional={"relax": _relax, "max_it": st.integers(1, 60)})
# alpha enters the objective as alpha^2 only: negative values, both zeros, tiny and huge magnitudes are all legitimate
_ALPHA = st.one_of(st.floats(-3.0, 1.0).map(lambda e: 10.0 ** e), st.floats(-3.0, 1.0).map(lambda e: 10.0 ** e),
                   st.floats(-3.0, 1.0).map(lambda e: -(10.0 ** e)),
                   st.sampled_from([-0.0, 0.0, 1e-300, -1e-300, 1e-30, -1e-30, 1e30, -1e30, 1e100, -1e100, -1.0, -0.01]))
_alpha_override = st.fixed_dictionaries({}, optional={"alpha": _ALPHA})


@st.composite
def sart_case(draw):
    w = draw(w_matrix())
    n = len(w[0])
    case = {"variant": draw(st.sampled_from(["plain", "constrained"])), "W": w,
            "b": draw(b_vector(w, ["consistent", "consistent", "random", "mixed_sign"])),
            "layout": draw(_LAYOUT2), "b_layout": draw(_LAYOUT1)}
    g = draw(st.sampled_from(["none", "float", "int", "array", "array", "array_signed", "array_f32", "array_int", "list"]))
    if g == "float":
        case["guess"] = draw(st.one_of(st.just(0.0), st.floats(1e-3, 100.0)))
    elif g == "int":
        case["guess"] = draw(st.integers(0, 5))
    elif g == "array":
        case["guess"] = draw(_nonneg_vec(n, 100.0))
    elif g == "array_signed":
        case["guess"] = draw(st.lists(_signed(10.0), min_size=n, max_size=n))
    elif g in ("array_f32", "list"):                  # accepted forms: float32 array, plain Python list
        case["guess"] = draw(_nonneg_vec(n, 100.0))
        case["guess_form"] = "float32" if g == "array_f32" else "list"
    elif g == "array_int":                            # integer array (e.g. np.ones(n, dtype=int))
        case["guess"] = draw(st.lists(st.integers(0, 5).map(float), min_size=n, max_size=n))
        case["guess_form"] = draw(st.sampled_from(["int64", "int32"]))
    else:
        case["guess"] = None
    if g in ("float", "array", "array_signed", "list"):                      # float64 guesses: overall scale as well
        wtop = max(max(r) for r in w)
        nat = max(abs(v) for v in case["b"]["v"]) / wtop if wtop > 0 else 1.0   # the magnitude a solution has
        gs = draw(st.sampled_from([nat if 1e-150 < nat < 1e150 else 1.0, 1.0, None]))
        gs = draw(_SCALE) if gs is None else gs
        case["guess"] = [v * gs for v in case["guess"]] if isinstance(case["guess"], list) else case["guess"] * gs
    elif g == "array_f32":
        gs = draw(_SCALE32)
        case["guess"] = [v * gs for v in case["guess"]]
    case["equiv"] = draw(_EQUIV)
    if draw(st.integers(0, 9)) == 0:
        case["defaults"] = True                                            # rely on the documented default parameters
    else:
        case["max_it"] = draw(st.one_of(st.integers(1, 6), st.integers(1, 60)))
        case["relax"] = draw(_relax)
        case["conv_tol"] = draw(_conv_tol)
        if case["variant"] == "constrained":
            case["beta"] = draw(st.one_of(st.just(0.0), st.floats(0.0, 0.2)))
    if case["variant"] == "constrained":
        case["L"] = draw(l_spec(n, False))
    case["reuse"] = _reuse(draw, _sart_override)
    if draw(st.booleans()):
        # the caller edits his own matrix / measurement array IN PLACE (same objects) and calls again: a time series, a re-weighted ray
        case["edit"] = {"i": draw(st.integers(0, 99)), "j": draw(st.integers(0, 99)), "u": draw(st.sampled_from([0.0, 0.25, 0.5, 1.5, 3.0])),
                        "row": draw(st.booleans()), "bk": draw(st.integers(0, 99)), "bu": draw(st.sampled_from([None, 0.5, 2.0, 3.0]))}
    return case


@st.composite
def sart_fixed_case(draw):
    w = draw(w_matrix())
    m, n = len(w), len(w[0])
    case = {"variant": draw(st.sampled_from(["plain", "constrained"])), "W": w,
            "layout": draw(st.sampled_from(["C", "C", "F"])),
            "max_it": draw(st.integers(1, 60)), "relax": draw(_relax),
            "conv_tol": draw(st.sampled_from([1e-8, 1e-6, 1e-4, 1e-2]))}
    const = None
    if case["variant"] == "constrained":
        if draw(st.booleans()):
            case["beta"] = 0.0
            case["L"] = draw(l_spec(n, False, dtypes=False))
        else:                                   # beta > 0: constant field is in the null space of a graph Laplacian
            case["beta"] = draw(st.floats(0.001, 0.2))
            case["L"] = draw(st.one_of(st.just({"kind": "lap1d", "bc": "neumann"}),
                                       st.builds(lambda r, d: {"kind": "lap2d", "rows": r, "diag": d},
                                                 st.sampled_from(_divisors(n)), st.booleans())))
            const = draw(st.one_of(st.integers(0, 8).map(float), st.floats(1e-3, 100.0)))
    if const is None and draw(st.integers(0, 4)) == 0:
        const = draw(st.one_of(st.integers(0, 8).map(float), st.floats(1e-3, 100.0)))
    xs = [const] * n if const is not None else draw(_nonneg_vec(n, 100.0))
    # b = W x* must not vanish identically (division by |b|^2): force one positive product
    if not any(w[i][j] * xs[j] > 1e-140 for i in range(m) for j in range(n)):     # |b|^2 must not underflow
        if const is not None:
            xs = [max(const, 1.0)] * n
        else:
            xs[0] = 1.0
        if not any(w[i][j] * xs[j] > 1e-140 for i in range(m) for j in range(n)):
            w[0][0] = 1.0
    case["xstar"] = xs
    case["scalar_guess"] = bool(const is not None and draw(st.booleans()))
    case["reuse"] = _reuse(draw, _fixed_override)
    return case


@st.composite
def reg_case(draw, bkinds):
    wdt, bdt = draw(_W_DTYPE), draw(_B_DTYPE)
    w = draw(w_matrix(wdt))
    n = len(w[0])
    case = {"W": w, "b": draw(b_vector(w, bkinds, bdt)), "L": draw(l_spec(n, True)),
            "W_dtype": wdt, "b_dtype": bdt, "layout": draw(_LAYOUT2), "b_layout": draw(_LAYOUT1)}
    if draw(st.integers(0, 11)) != 0:
        case["alpha"] = draw(_ALPHA)
    case["neg"] = draw(st.booleans())           # extra call with -alpha on the same objects: must give the same result
    case["reuse"] = _reuse(draw, _alpha_override)
    case["equiv"] = draw(_EQUIV)
    return case                                 # no "alpha" key: documented default alpha = 0.01


def nnls_case():
    return reg_case(["consistent", "consistent", "random", "mixed_sign"])


def lstsq_case():
    return reg_case(["consistent", "consistent", "random", "mixed_sign", "zero"])


@st.composite
def svd_case(draw):
    wdt, bdt = draw(_W_DTYPE), draw(_B_DTYPE)
    w = draw(w_matrix(wdt))
    return {"W": w, "b": draw(b_vector(w, ["consistent", "consistent", "random", "mixed_sign", "zero"], bdt)),
            "W_dtype": wdt, "b_dtype": bdt, "layout": draw(_LAYOUT2), "b_layout": draw(_LAYOUT1),
            "reuse": _reuse(draw, st.just({})), "equiv": draw(_EQUIV)}


# ------------------------------------------------------------------------------------------------ helpers
def build_L(spec, n):
    kind = spec["kind"]
    if kind == "none":
        return None
    if kind == "identity":
        return np.identity(n)
    if kind == "random":
        return np.array(spec["M"], dtype=float).reshape(n, n)
    L = np.zeros((n, n))
    if kind == "lap1d":
        for i in range(n):
            nb = [j for j in (i - 1, i + 1) if 0 <= j < n]
            L[i, i] = len(nb) if spec["bc"] == "neumann" else 2.0
            for j in nb:
                L[i, j] = -1.0
        return L
    rows = int(spec["rows"])
    cols = n // rows
    for r in range(rows):
        for c in range(cols):
            i = r * cols + c
            for dr in (-1, 0, 1):
                for dc in (-1, 0, 1):
                    if (dr, dc) == (0, 0) or (not spec["diag"] and dr != 0 and dc != 0):
                        continue
                    rr, cc = r + dr, c + dc
                    if 0 <= rr < rows and 0 <= cc < cols:
                        L[i, rr * cols + cc] = -1.0
                        L[i, i] += 1.0
    return L


def w_classes(W, ctx, b=None):
    """labels for the structure of W; returns (zero_row_or_col, rank, n, rank_ambiguous, Vh)."""
    m, n = W.shape
    ctx.label("shape:under" if m < n else ("shape:over" if m > n else "shape:square"))
    cs = W.sum(axis=0)
    zr = bool(np.any(W.sum(axis=1) == 0))
    zc = bool(np.any(cs == 0))
    top = float(W.max()) if W.size else 0.0
    if top > 0:
        e = np.log10(top)
        ctx.label("scale:W<=1e-13" if e <= -13 else ("scale:W<1e-3" if e < -3 else ("scale:W>=1e13" if e >= 13 else
                  ("scale:W>1e3" if e > 3 else "scale:W~1"))))
        pc = cs[cs > 0]
        if pc.min() <= 1e-12:
            ctx.label("W:colsum<=1e-12")                              # some seen voxel has a tiny column sum ...
            ctx.label("W:small_units" if pc.max() <= 1e-12 else "W:grazed_voxel")   # ... all of them / next to O(1) ones
        if bool(np.any((W > 0) & (W < 2.3e-308))):
            ctx.label("W:subnormal")
    if b is not None and np.max(np.abs(b)) > 0:
        e = np.log10(float(np.max(np.abs(b))))
        ctx.label("scale:b<=1e-13" if e <= -13 else ("scale:b<1e-3" if e < -3 else ("scale:b>=1e13" if e >= 13 else
                  ("scale:b>1e3" if e > 3 else "scale:b~1"))))
    if zr:
        ctx.label("W:zero_row")
    if zc:
        ctx.label("W:zero_col")
    _, s, vh = np.linalg.svd(W, full_matrices=True)
    smax = s[0] if s.size else 0.0
    if smax == 0.0:
        rank, amb = 0, False
    else:
        rank = int(np.sum(s > 1e-7 * smax))
        # undecidable window: from half the relative cut-off of pinv / lstsq, max(m, n) * eps, up to the 1e-7 used here
        amb = bool(np.any((s >= 0.5 * max(m, n) * U * smax) & (s <= 1e-7 * smax)))
    if rank < min(m, n):
        ctx.label("W:rank_deficient")
    if amb:
        ctx.label("W:rank_ambiguous")
    return zr or zc, rank, amb, vh


def ref_sart(W, b, x0, max_it, relax, conv_tol, L, beta, vectorised):
    """Independent transcription of the documented (constrained) SART rule.  Returns x, conv, info."""
    m, n = W.shape
    x = np.array(x0, dtype=float)
    ray = W.sum(axis=1)                       # W_{k,+}
    dens = W.sum(axis=0)                      # W_{+,l}
    live = ray != 0
    bb = float(np.dot(b, b))
    wb = float(_norm(W)) / np.sqrt(bb)          # |W|_F / |b|
    conv, cerr, clipped, xscale, margin_bad = [], [], False, float(np.max(np.abs(x))) if n else 0.0, False
    if vectorised:
        Wn = np.zeros_like(W)
        Wn[live] = W[live] * (1.0 / ray[live])[:, None]      # product with the reciprocal here, quotient in the loops below
    for k in range(max_it):
        resid = b - np.dot(W, x)              # Phi - Phi_hat of the previous iterate
        new = x.copy()
        if vectorised:
            upd = np.dot(Wn.T, resid)
            pos = dens > 0
            new[pos] = x[pos] + relax * upd[pos] / dens[pos]
            if np.any(pos):                    # size of the summed terms: governs the rounding error when they cancel
                xscale = max(xscale, float(np.max(relax * np.dot(Wn.T, np.abs(resid))[pos] / dens[pos])))
        else:
            for l in range(n):
                if dens[l] > 0:
                    acc = mag = 0.0
                    for i in range(m):
                        if live[i]:
                            acc += W[i, l] / ray[i] * resid[i]
                            mag += W[i, l] / ray[i] * abs(resid[i])
                    new[l] = x[l] + relax / dens[l] * acc
                    xscale = max(xscale, relax / dens[l] * mag)
        if L is not None:
            new = new - beta * np.dot(L, x)
        if np.any(new < 0):
            clipped = True
        new = np.where(new < 0, 0.0, new)
        yhat = np.dot(W, new)
        conv.append((bb - float(np.dot(yhat, yhat))) / bb)
        x = new
        xscale = max(xscale, float(np.max(np.abs(x))) if n else 0.0)
        # magnitude that governs the rounding error of conv[k] = 1 - |yhat|^2/|b|^2:  d(conv) = 2 |yhat| d|yhat| / |b|^2 with
        # d|yhat| ~ u |W| xscale (x carries the rounding of the largest iterate) and |yhat|/|b| = sqrt(1 - conv)
        cerr.append(max(1.0, abs(conv[k]), np.sqrt(1.0 + abs(conv[k])) * wb * xscale))
        if k > 0:
            d = abs(conv[k] - conv[k - 1])
            if conv_tol > 0 and abs(d - conv_tol) <= 1e-10 * (cerr[k] + cerr[k - 1]):
                margin_bad = True
            if d < conv_tol:
                break
    finite = bool(np.all(np.isfinite(x)) and np.all(np.isfinite(conv)) and np.isfinite(xscale) and np.all(np.isfinite(cerr)))
    return x, conv, {"clipped": clipped, "xscale": xscale, "margin_bad": margin_bad, "cscale": max(cerr), "finite": finite}


_NP = {"float64": np.float64, "float32": np.float32, "int64": np.int64, "int32": np.int32, "bool": np.bool_}
U32 = 2.0 ** -24


def _pristine(values, dtype="float64"):
    """float64 array of the numbers an array of `dtype` built from `values` holds exactly (the user's problem data)."""
    a = np.array(values, dtype=float)
    if dtype == "float32":
        a = a.astype(np.float32).astype(np.float64)
    elif dtype in ("int64", "int32"):
        a = np.rint(a)
    elif dtype == "bool":
        a = (a != 0).astype(np.float64)
    return a


def _obj(a64, dtype="float64", layout="C"):
    """the array object handed to the solver: requested dtype (exact conversion) and memory layout."""
    arr = np.ascontiguousarray(a64.astype(_NP[dtype]))
    if layout == "F":
        arr = np.asfortranarray(arr)
    elif layout == "strided":                      # non-contiguous view into a larger buffer
        big = np.zeros(tuple(2 * k for k in arr.shape), dtype=arr.dtype)
        view = big[(slice(None, None, 2),) * arr.ndim]
        view[...] = arr
        arr = view
    return arr


def _wb(case, ctx, owned, wname, bname, bvalues=None):
    """pristine float64 (W0, b0) and the owned objects (W, b) in the drawn dtype / layout; labels them."""
    wdt, bdt = case.get("W_dtype", "float64"), case.get("b_dtype", "float64")
    wl, bl = case.get("layout", "C"), case.get("b_layout", "C")
    W0 = _pristine(case["W"], wdt)
    if W0.ndim != 2:
        W0 = W0.reshape(len(case["W"]), -1)
    b0 = _pristine(case["b"]["v"], bdt) if bvalues is None else bvalues(W0)
    ctx.label("dtype:W=" + wdt, "dtype:b=" + bdt, "layout:W=" + wl, "layout:b=" + bl)
    return W0, b0, owned.adopt(wname, _obj(W0, wdt, wl)), owned.adopt(bname, _obj(b0, bdt, bl))


def _l_objects(spec, n, ctx, owned, name):
    if spec["kind"] == "none":
        return None, None, "float64"
    dt, lay = spec.get("dtype", "float64"), spec.get("layout", "C")
    L0 = _pristine(build_L(spec, n), dt)
    ctx.label("dtype:L=" + dt, "layout:L=" + lay)
    return L0, owned.adopt(name, _obj(L0, dt, lay)), dt


def _cert(W, b, L, alpha):
    """stacked system C = [W; alpha L], d = [b; 0]."""
    m, n = W.shape
    Lm = np.identity(n) if L is None else L
    C = np.vstack([W, alpha * Lm])
    d = np.concatenate([b, np.zeros(n)])
    return C, d


def _norm(a):
    """Euclidean / Frobenius norm that neither overflows nor underflows for entries beyond 1e+-154."""
    a = np.abs(np.asarray(a, dtype=float)).ravel()
    top = float(a.max()) if a.size else 0.0
    if top == 0.0 or not np.isfinite(top):
        return top
    return top * float(np.sqrt(np.sum((a / top) ** 2)))


LS = 1e-12        # nnls / lstsq certificate coefficient (see TOLERANCES); the svd wrapper keeps 1e-8


def _eps(C, x, d, coef=1e-8):
    nc = float(np.linalg.norm(C, 2)) if C.size else 0.0
    return coef * nc * (nc * float(_norm(x)) + float(_norm(d))), nc        # order of the products: no under / overflow


# ------------------------------------------------------------------------------------------------ run functions
F_SCIPY = "C11-nnls-scipy-nonoptimal"
F_GUESS = "C11-sart-guess-inplace"
F_SUBN = "C11-sart-subnormal-sum-overflow"
RECIP_OVERFLOW = 5.563e-309          # 1/x overflows to inf for 0 < x below this (subnormal) value


def _subnormal_sum_gate(case, ctx, W0):
    """known finding: the SART solvers multiply by 1/W(k,+) and relaxation/W(+,l); for a subnormal ray length / column sum
    below 5.56e-309 the reciprocal is inf and the result nan or inf.  While open, that input class is not judged."""
    sums = np.concatenate([W0.sum(axis=0), W0.sum(axis=1)])
    hit = bool(np.any((sums > 0) & (sums < RECIP_OVERFLOW)))
    if hit and is_open(F_SUBN) and not case.get("probe"):
        ctx.label("excluded_known")
        return True
    return False


class Owned:
    """The caller-owned arrays of one case.  `own()` returns the object that is handed to EVERY call of the case; its bytes are
    recorded before the first call.  `scan()` after each call notes the first array that is no longer bit-identical; `verdict()`
    (after all calls were certified against the pristine inputs) turns that into the `inputs-unmodified` violation."""

    def __init__(self):
        self.items, self.first_bad = [], None

    def own(self, name, pristine):
        return self.adopt(name, np.array(pristine, order="K", copy=True))

    def adopt(self, name, obj):
        self.items.append((name, obj, obj.tobytes(), obj.shape, obj.dtype, obj.flags["F_CONTIGUOUS"]))
        return obj

    def rebase(self):
        """the caller changed his arrays himself: record their present bytes as the reference"""
        self.items = [(name, obj, obj.tobytes(), obj.shape, obj.dtype, fc) for name, obj, _, _, _, fc in self.items]

    def scan(self, call_no):
        for name, obj, raw, shape, dtype, fc in self.items:
            if self.first_bad is None and (obj.shape != shape or obj.dtype != dtype or obj.tobytes() != raw):
                old = np.frombuffer(raw, dtype=dtype).reshape(shape)
                k = int(np.argmax(np.asarray(obj).ravel() != old.ravel())) if obj.shape == shape else -1
                self.first_bad = (name, call_no, k, float(old.ravel()[k]) if k >= 0 else None,
                                  float(np.asarray(obj).ravel()[k]) if k >= 0 else None)

    def verdict(self, ctx):
        if self.first_bad is not None:
            ctx.fail("inputs-unmodified", "the caller's %s array was modified in place by call %d (flat index %s: %r -> %r); the "
                     "documentation does not say it is an output" % self.first_bad)


def _calls(case, base, ctx):
    """parameter dicts of all calls of the case: the base call + the drawn overrides."""
    out = [dict(base)]
    for ov in case.get("reuse", []) or []:
        p = dict(base)
        p.update(ov)
        out.append(p)
    if len(out) > 1:
        ctx.label("reuse:%d" % len(out))
        ctx.label("reuse:param_changed" if any(p != out[0] for p in out[1:]) else "reuse:same_params")
    return out


def _sart_kw(prm, variant):
    kw = {}
    if "max_it" in prm:
        kw["max_iterations"] = int(prm["max_it"])
    if "relax" in prm:
        kw["relaxation"] = float(prm["relax"])
    if "conv_tol" in prm:
        kw["conv_tol"] = float(prm["conv_tol"])
    if variant == "constrained" and "beta" in prm:
        kw["beta_laplace"] = float(prm["beta"])
    return kw


def _sart_eff(prm, variant):
    return (int(prm.get("max_it", DEFAULTS["max_it"])), float(prm.get("relax", DEFAULTS["relax"])),
            float(prm.get("conv_tol", DEFAULTS["conv_tol"])),
            float(prm.get("beta", DEFAULTS["beta"])) if variant == "constrained" else 0.0)


def _guess_sharing(case, ctx, is_array):
    """True when the same initial-guess array object is handed to every call (and must stay unmodified)."""
    if not is_array:
        return False
    if is_open(F_GUESS) and not case.get("probe"):
        # known finding: both SART solvers iterate in place on the caller's initial_guess array (and return that very array),
        # which the docstring does not mention.  While it is open every call gets a fresh copy of the pristine guess.
        ctx.label("known:guess_array_copied_per_call")
        return False
    return True


def _certify_sart(ctx, W, b, L, x0, variant, prm, x, conv, call_no, structural):
    """compare one call's result with the reference iterate from the PRISTINE inputs; returns {"nt", "xs", "cs"} or None."""
    n = W.shape[1]
    max_it, relax, tol, beta = _sart_eff(prm, variant)
    tag = "" if call_no == 1 else " [call %d on the same objects]" % call_no
    ctx.check(x.shape == (n,), "shape", "solution shape %s, expected (%d,)%s" % (x.shape, n, tag))
    xa, ca, ia = ref_sart(W, b, x0, max_it, relax, tol, L, beta, False)
    xb, cb, ib = ref_sart(W, b, x0, max_it, relax, tol, L, beta, True)
    if not (ia["finite"] and ib["finite"]):
        # overflow / invalid operation inside the literal evaluation itself (1/W(+,l) or 1/W(k,+) of a subnormal sum, ...)
        ctx.label("inconclusive:reference_not_finite")
        return None
    xs, cs = ia["xscale"], ia["cscale"]
    if len(ca) != len(cb) or float(np.max(np.abs(xa - xb))) > 1e-12 * xs \
            or max(abs(p - q) for p, q in zip(ca, cb)) > 1e-12 * cs:
        ctx.label("inconclusive:ill_conditioned")
        return None
    # stop decision |conv[k] - conv[k-1]| < conv_tol: ambiguous when it is closer to conv_tol than the rounding noise of the
    # convergence numbers.  (a) a-priori: 1e-10 x the first-order error scale of conv (ref_sart: u |W| max|x| propagated into
    # 1 - |W x|^2/|b|^2) - needed when the iterate is orders of magnitude below an earlier one (e.g. guess 5, |b| 1e-15: the
    # cancellation x0 - x0 leaves noise u*|x0| ~ |x|, different in every evaluation order, and the two reference orders can
    # agree by luck); (b) measured: 1000 x the difference between the two summation orders plus 1e-12 relative
    if ia["margin_bad"] or ib["margin_bad"]:
        ctx.label("inconclusive:stop_ambiguous")
        return None
    for k in range(1, len(ca)):
        noise = 1e3 * (abs(ca[k] - cb[k]) + abs(ca[k - 1] - cb[k - 1])) + 1e-12 * (1.0 + abs(ca[k]) + abs(ca[k - 1]))
        if tol > 0 and abs(abs(ca[k] - ca[k - 1]) - tol) <= noise:
            ctx.label("inconclusive:stop_ambiguous")
            return None
    ctx.check(bool(np.all(np.isfinite(x))), "finite", lambda: "non-finite solution %r%s" % (x.tolist(), tag))
    ctx.check(bool(np.all(x >= 0)), "nonneg", lambda: "negative entries in the solution: %r%s" % (x.tolist(), tag))
    ctx.check(1 <= len(conv) <= max_it, "conv-len", "convergence list of length %d with max_iterations=%d%s" % (len(conv), max_it, tag))
    if ia["clipped"]:
        ctx.label("clipped")
    if beta > 0:
        ctx.label("beta>0")
    ctx.label("stop:conv_tol" if len(ca) >= 2 and abs(ca[-1] - ca[-2]) < tol else "stop:max_iterations")
    ctx.label("iters:1" if len(ca) == 1 else ("iters:2" if len(ca) == 2 else "iters:3+"))
    ctx.check(len(conv) == len(ca), "iterations",
              lambda: "stopped after %d iterations, the documented rule stops after %d (conv got %r, want %r)%s"
              % (len(conv), len(ca), conv[:6], ca[:6], tag))
    ctx.close(x, xa, "iterate", rtol=1e-10, scale=xs, info="(iterations=%d)%s" % (len(ca), tag))
    ctx.close(conv, ca, "convergence", rtol=1e-10, scale=cs, info=tag)
    return {"nt": len(ca) >= 2 and (ia["clipped"] or beta > 0 or structural), "xs": xs, "cs": cs}


def _in_range(*arrays):
    """all non-zero magnitudes inside [1e-100, 1e100]: scaling by 2^k, |k| <= 60, is then exact in every intermediate."""
    for a in arrays:
        a = np.abs(np.asarray(a, dtype=float))
        nz = a[a > 0]
        if nz.size and (nz.min() < 1e-100 or nz.max() > 1e100 or not np.all(np.isfinite(nz))):
            return False
    return True


def _sart_equiv(ctx, case, W0, b0, L0, x0, variant, prm, x1, conv1, cert1):
    """scale equivariance of the documented rule: SART(cW, cb, x0) = SART(W, b, x0) and SART(W, cb, c x0) = c SART(W, b, x0),
    convergence list unchanged; for c = 2^k every operation scales exactly, so the results must be bit-identical."""
    eq = case.get("equiv")
    if not eq:
        return
    kind, c = eq["kind"], 2.0 ** int(eq["k"])
    g = case["guess"]
    if kind == "b" and (g is None or isinstance(g, int) or case.get("guess_form", "float64") not in ("float64", "list")):
        kind = "Wb"                                  # the guess cannot be scaled (default exp(-1) / integer / float32 guess)
    W2, b2, x2_0, cx = (W0 * c, b0 * c, x0, 1.0) if kind == "Wb" else (W0, b0 * c, x0 * c, c)
    if not (_in_range(W0, b0, x0, x1, W2, b2, x2_0) and bool(np.all(np.isfinite(x1)))):
        ctx.label("equiv:skipped_range")
        return
    kw = _sart_kw(prm, variant)
    if g is not None:
        kw["initial_guess"] = (float(g) * cx if not isinstance(g, int) else g) if not isinstance(g, list) else x2_0.copy()
    # same memory layouts / dtypes as in the first call: BLAS then sums in the same order and 2^k scaling is exact
    W2, b2 = _obj(W2, "float64", case.get("layout", "C")), _obj(b2, "float64", case.get("b_layout", "C"))
    with ctx.cut("call"):
        if variant == "plain":
            x2, conv2 = invert_sart(W2, b2, **kw)
        else:
            x2, conv2 = invert_constrained_sart(W2, _obj(L0, case["L"].get("dtype", "float64"), case["L"].get("layout", "C")), b2, **kw)
        x2 = np.array(x2, dtype=float)
        conv2 = [float(v) for v in conv2]
    ctx.label("equiv:" + kind)
    if conv2 == conv1 and np.array_equal(x2, cx * x1):
        ctx.label("equiv:bit_exact")
        return
    ctx.label("equiv:not_bit_exact")
    if cert1 is None:                                # call 1 could not be judged (ill-conditioned / ambiguous stop): no tolerance known
        return
    what = "scale-equivariance"
    msg = "SART(%s) with c = 2^%d" % ("c W, c b" if kind == "Wb" else "W, c b, c x0", int(eq["k"]))
    ctx.check(len(conv2) == len(conv1), what, lambda: "%s stops after %d iterations instead of %d" % (msg, len(conv2), len(conv1)))
    ctx.close(x2, cx * x1, what, rtol=1e-10, scale=cx * cert1["xs"], info=msg + ": result is not %s the unscaled one" % ("c times" if cx != 1 else "equal to"))
    ctx.close(conv2, conv1, what, rtol=1e-10, scale=cert1["cs"], info=msg + ": convergence list changed")


def run_sart(case, ctx):
    owned = Owned()
    variant = case["variant"]
    W0, b0, W, b = _wb(case, ctx, owned, "geometry_matrix", "measurement_vector")   # SART: float64 only, any layout
    m, n = W0.shape
    ctx.label("variant:" + variant, "b:" + case["b"]["kind"])
    degenerate, rank, _, _ = w_classes(W0, ctx, b0)
    if _subnormal_sum_gate(case, ctx, W0):
        return
    L0 = L = None
    if variant == "constrained":
        ctx.label("L:" + case["L"]["kind"])
        L0, L, _ = _l_objects(case["L"], n, ctx, owned, "laplacian_matrix")
    g = case["guess"]
    garr = glist = None
    if g is None:
        ctx.label("guess:none")
        x0 = np.full(n, np.exp(-1))
    elif isinstance(g, list):
        form = case.get("guess_form", "float64")
        ctx.label("guess:array_signed" if any(v < 0 for v in g) else ("guess:array" if form == "float64" else "guess:" + form))
        if form == "list":                              # plain Python list of floats
            x0 = np.array(g, dtype=float)
            glist = [float(v) for v in g]
        else:
            x0 = _pristine(g, form)
            if _guess_sharing(case, ctx, True):
                garr = owned.adopt("initial_guess", _obj(x0, form, "C"))
    else:
        ctx.label("guess:int" if isinstance(g, int) else "guess:float")
        x0 = np.full(n, float(g))
    base = {k: case[k] for k in ("max_it", "relax", "conv_tol", "beta") if k in case}
    if case.get("defaults"):
        ctx.label("params:defaults")
    nt = False
    for call_no, prm in enumerate(_calls(case, base, ctx), 1):
        kw = _sart_kw(prm, variant)
        if glist is not None:
            kw["initial_guess"] = glist
        elif isinstance(g, list):
            kw["initial_guess"] = garr if garr is not None else _obj(x0, case.get("guess_form", "float64"), "C")
        elif g is not None:
            kw["initial_guess"] = g
        with ctx.cut("call"):
            if variant == "plain":
                x, conv = invert_sart(W, b, **kw)
            else:
                x, conv = invert_constrained_sart(W, L, b, **kw)
            x = np.array(x, dtype=float)
            conv = [float(c) for c in conv]
        owned.scan(call_no)
        if glist is not None:
            ctx.check(glist == [float(v) for v in g], "inputs-unmodified", "the caller's initial_guess list was modified by call %d" % call_no)
        r = _certify_sart(ctx, W0, b0, L0, x0, variant, prm, x, conv, call_no, degenerate or rank < min(m, n))
        nt = nt or bool(r and r["nt"])
        if call_no == 1:
            first = (prm, x, conv, r)
    owned.verdict(ctx)
    _sart_equiv(ctx, case, W0, b0, L0, x0, variant, first[0], first[1], first[2], first[3])
    ed = case.get("edit")
    if ed:
        # in-place edit of the caller's arrays, then the same call on the same objects: the answer is that of the edited problem
        i, j, k = ed["i"] % m, ed["j"] % n, ed["bk"] % m
        top = float(np.abs(W0).max()) or 1.0
        W0 = W0.copy()
        b0 = b0.copy()
        if ed["row"]:
            W0[i, :] = W0[i, :] * (ed["u"] if ed["u"] > 0 else 0.5) + (0.125 * top if ed["u"] == 0.0 else 0.0)
            W[i, :] = W0[i, :]
        else:
            W0[i, j] = ed["u"] * top if W0[i, j] != ed["u"] * top else 0.75 * top
            W[i, j] = W0[i, j]
        if ed["bu"] is not None:
            b0[k] = (abs(b0[k]) if b0[k] != 0 else float(np.abs(b0).max())) * ed["bu"]
            b[k] = b0[k]
        in_domain = bool(np.any(b0 != 0)) and np.all(np.isfinite(W0)) and np.all(np.isfinite(b0)) and np.array_equal(np.asarray(W, dtype=float), W0) \
            and np.array_equal(np.asarray(b, dtype=float), b0) and not _subnormal_sum_gate(case, ctx, W0)
        if in_domain:
            deg2, rank2, _, _ = w_classes(W0, ctx, b0)
            owned.rebase()
            with ctx.cut("call"):
                if variant == "plain":
                    x, conv = invert_sart(W, b, **kw)
                else:
                    x, conv = invert_constrained_sart(W, L, b, **kw)
                x = np.array(x, dtype=float)
                conv = [float(c) for c in conv]
            owned.scan(90)
            _certify_sart(ctx, W0, b0, L0, x0, variant, prm, x, conv, 90, deg2 or rank2 < min(m, n))
            owned.verdict(ctx)
            ctx.label("reuse:edited-in-place")
    ctx.nt(nt)


def run_sart_fixed(case, ctx):
    owned = Owned()
    variant = case["variant"]
    xs = np.array(case["xstar"], dtype=float)
    W0, b0, W, b = _wb(case, ctx, owned, "geometry_matrix", "measurement_vector", bvalues=lambda w0: np.dot(w0, xs))
    m, n = W0.shape
    ctx.label("variant:" + variant)
    degenerate, rank, _, _ = w_classes(W0, ctx)
    if not float(np.dot(b0, b0)) > 1e-290:      # cannot happen by construction; an all-zero b is outside the accepted inputs
        ctx.label("skipped:zero_b")
        return
    if _subnormal_sum_gate(case, ctx, W0):
        return
    L = None
    if variant == "constrained":
        beta = float(case["beta"])
        L = owned.own("laplacian_matrix", build_L(case["L"], n))
        ctx.label("L:" + case["L"]["kind"], "beta>0" if beta > 0 else "beta=0")
    garr = None
    if case.get("scalar_guess"):
        ctx.label("guess:scalar")
    else:
        ctx.label("guess:array")
        if _guess_sharing(case, ctx, True):
            garr = owned.own("initial_guess", xs)
    base = {"max_it": case["max_it"], "relax": case["relax"]}
    tol = float(case["conv_tol"])
    for call_no, prm in enumerate(_calls(case, base, ctx), 1):
        max_it, relax = int(prm["max_it"]), float(prm["relax"])
        guess = float(xs[0]) if case.get("scalar_guess") else (garr if garr is not None else xs.copy())
        with ctx.cut("call"):
            if variant == "plain":
                x, conv = invert_sart(W, b, initial_guess=guess, max_iterations=max_it, relaxation=relax, conv_tol=tol)
            else:
                x, conv = invert_constrained_sart(W, L, b, initial_guess=guess, max_iterations=max_it,
                                                  relaxation=relax, beta_laplace=beta, conv_tol=tol)
            x = np.array(x, dtype=float)
            conv = [float(c) for c in conv]
        owned.scan(call_no)
        tag = "" if call_no == 1 else " [call %d on the same objects]" % call_no
        ctx.check(bool(np.all(x >= 0)), "nonneg", lambda: "negative entries in the solution: %r%s" % (x.tolist(), tag))
        ctx.close(x, xs, "fixed-point", rtol=1e-11, scale=float(np.max(xs)),
                  info="(an exact non-negative solution given as initial guess must be returned unchanged)" + tag)
        ctx.check(len(conv) == min(2, max_it), "fixed-point-iterations",
                  lambda: "%d iterations from an exact solution with conv_tol=%g, expected %d; conv=%r%s"
                  % (len(conv), tol, min(2, max_it), conv[:5], tag))
        ctx.check(all(abs(c) <= 1e-10 for c in conv), "fixed-point-convergence",
                  lambda: "convergence numbers %r are not ~0 although W x = b%s" % (conv[:5], tag))
    owned.verdict(ctx)
    ctx.nt(degenerate or rank < n or (bool(np.any(xs == 0)) and bool(np.any(xs > 0))))


def _reg_setup(case, ctx):
    owned = Owned()
    W0, b0, W, b = _wb(case, ctx, owned, "w_matrix", "b_vector")
    n = W0.shape[1]
    ctx.label("b:" + case["b"]["kind"], "L:" + case["L"]["kind"])
    L0, L, ldt = _l_objects(case["L"], n, ctx, owned, "tikhonov_matrix")
    base = {"alpha": case["alpha"]} if "alpha" in case else {}
    if not base:
        ctx.label("alpha:default")
    # a float32 Tikhonov matrix: the solvers form alpha * L in float32 (numpy keeps the array dtype for a Python-float factor),
    # i.e. they solve with (alpha L)(1 + delta), |delta| <= 2^-24; lfro = |L|_F enters the certificate tolerances (see TOLERANCES).
    lfro = float(_norm(L0)) if (L0 is not None and ldt == "float32") else 0.0
    if lfro:
        ctx.label("precision:L_float32")
    return W0, b0, L0, W, b, L, owned, base, lfro


def _alpha_label(ctx, alpha):
    if alpha == 0:
        ctx.label("alpha:zero", "alpha:neg_zero" if np.signbit(alpha) else "alpha:pos_zero")
    else:
        if alpha < 0:
            ctx.label("alpha:negative")
        if abs(alpha) <= 1e-30:
            ctx.label("alpha:tiny")
        elif abs(alpha) >= 1e30:
            ctx.label("alpha:huge")


def _with_neg(case, calls, ctx):
    """append the call with -alpha (same objects, same everything else): the objective depends on alpha^2 only."""
    if case.get("neg"):
        a = float(calls[0].get("alpha", DEFAULTS["alpha"]))
        calls = calls + [dict(calls[0], alpha=-a)]
        ctx.label("neg:called")
    return calls


def _neg_compare(ctx, case, results, C, d):
    """results: {call_no: (x, reported)}; the -alpha call is the last one.  Negating the Tikhonov rows commutes with every
    rounding of a Householder / SVD solve, so bit-identical output is expected; otherwise conditioning-bounded."""
    if not case.get("neg") or 1 not in results or max(results) == 1 or (len(case.get("reuse") or []) + 2) not in results:
        return
    (x1, r1), (x2, r2) = results[1], results[len(case.get("reuse") or []) + 2]
    if np.array_equal(x1, x2) and np.array_equal(r1, r2):
        ctx.label("neg:bit_exact")
        return
    ctx.label("neg:not_bit_exact")
    sv = _svals(C)
    if not (sv.size and sv[0] > 0 and sv[-1] > 1e-7 * sv[0]):
        return                                      # minimiser not unique / not continuous: both were certified separately
    kappa = float(sv[0] / sv[-1])
    tol = 1e-12 * kappa * kappa * (float(_norm(x1)) + float(_norm(d)) / float(sv[0]))
    err = float(np.max(np.abs(x2 - x1)))
    ctx.check(err <= tol, "alpha-sign", lambda: "solve(-alpha) differs from solve(alpha) by %.3g > %.3g (kappa = %.3g)" % (err, tol, kappa))


def _reg_kw(prm, L):
    kw = {}
    if "alpha" in prm:
        kw["alpha"] = float(prm["alpha"])
    if L is not None:
        kw["tikhonov_matrix"] = L
    return kw, float(prm.get("alpha", DEFAULTS["alpha"]))


def _kkt_ok(C, d, x, rnorm):
    r = np.dot(C, x) - d
    g = np.dot(C.T, r)
    eps, nc = _eps(C, x, d, LS)
    xm = float(np.max(x)) if x.size else 0.0
    return bool(np.all(x >= 0) and np.all(g >= -eps) and np.all(np.abs(g) * x <= eps * xm)
                and abs(rnorm - float(_norm(r))) <= LS * (nc * float(_norm(x)) + float(_norm(d))))


def _scipy_nnls_wrong(C, d):
    """True when scipy.optimize.nnls, called the way the wrapper documents (system divided by max(b)), is itself not optimal."""
    vmax = float(d.max())
    try:
        x, rn = scipy.optimize.nnls(C / vmax, d / vmax)
    except Exception:  # noqa
        return False
    return not _kkt_ok(C, d, np.array(x, dtype=float), float(rn) * vmax)


def _unrepresentable(C):
    """True when the smallest singular value the solvers keep (above max(m, n) * eps * sigma_max) is below 1e-290: its
    reciprocal, and with it the pseudo-inverse / possibly the minimiser, exceeds the largest double."""
    sv = _svals(C)
    kept = sv[sv > max(C.shape) * U * sv[0]] if (sv.size and sv[0] > 0) else sv[:0]
    return bool(kept.size and kept[-1] < 1e-290)


def _lin_equiv(ctx, case, kind_ok, solve, W0, b0, x1, C1, d1, what="scale-equivariance"):
    """linear solvers: solve(W, c b) = c solve(W, b) and solve(c W, c b; c alpha) = solve(W, b; alpha), c = 2^k.
    `solve(W, b, c_alpha)` returns the solution of the scaled problem (None = not judged).  Bit-identical results are expected
    (power-of-two scaling commutes with every rounding); otherwise the difference must stay inside the conditioning bound
    1e-12 * kappa(C)^2 * (|x| + |d|/|C|) of two backward-stable solves, judged only for a clearly full-rank stacked matrix."""
    eq = case.get("equiv")
    if not eq or not kind_ok:
        return
    kind, c = eq["kind"], 2.0 ** int(eq["k"])
    W2, b2, ca, cx = (W0 * c, b0 * c, c, 1.0) if kind == "Wb" else (W0, b0 * c, 1.0, c)
    if not (_in_range(W0, b0, x1, W2, b2, cx * x1) and bool(np.all(np.isfinite(x1)))):
        ctx.label("equiv:skipped_range")
        return
    with ctx.cut("call", allowed=(RuntimeError,)):
        try:
            x2 = solve(W2, b2, ca)
        except RuntimeError:
            x2 = None
    if x2 is None:
        ctx.label("equiv:skipped_inconclusive")
        return
    ctx.label("equiv:" + kind)
    if np.array_equal(x2, cx * x1):
        ctx.label("equiv:bit_exact")
        return
    ctx.label("equiv:not_bit_exact")
    sv = _svals(C1)
    if not (sv.size and sv[0] > 0 and sv[-1] > 1e-7 * sv[0] and C1.shape[0] >= C1.shape[1]):
        ctx.label("equiv:not_bit_exact_rank_deficient")      # solution not unique / not continuous: nothing to compare
        return
    kappa = float(sv[0] / sv[-1])
    tol = 1e-12 * kappa * kappa * (float(_norm(x1)) + float(_norm(d1)) / float(sv[0]))
    err = float(np.max(np.abs(x2 - cx * x1))) / cx
    ctx.check(err <= tol, what, lambda: "solve(%s) with c = 2^%d differs from %s by %.3g > %.3g (kappa = %.3g)"
              % ("c W, c b, c alpha" if kind == "Wb" else "W, c b", int(eq["k"]), "solve(W, b)" if kind == "Wb" else "c solve(W, b)",
                 err, tol, kappa))


def run_nnls(case, ctx):
    W0, b0, L0, W, b, L, owned, base, lfro = _reg_setup(case, ctx)
    m, n = W0.shape
    degenerate, rank, _, _ = w_classes(W0, ctx, b0)
    any_active = False
    first = None
    results = {}
    for call_no, prm in enumerate(_with_neg(case, _calls(case, base, ctx), ctx), 1):
        kw, alpha = _reg_kw(prm, L)
        _alpha_label(ctx, alpha)
        tag = "" if call_no == 1 else " [call %d on the same objects, alpha=%r]" % (call_no, alpha)
        if _unrepresentable(_cert(W0, b0, L0, alpha)[0]):
            ctx.label("skipped:pseudo_inverse_not_representable")
            continue
        try:
            with ctx.cut("call", allowed=(RuntimeError,)):
                x, rnorm = invert_regularised_nnls(W, b, **kw)
                x = np.array(x, dtype=float)
                rnorm = float(rnorm)
        except RuntimeError as e:
            if "iterations" in str(e).lower():
                ctx.label("inconclusive:nnls_maxiter")
                owned.scan(call_no)
                continue
            ctx.fail("call", "RuntimeError: %s" % e)
        owned.scan(call_no)
        C, d = _cert(W0, b0, L0, alpha)                  # the user's problem: pristine inputs
        Cg = C if not lfro else np.vstack([W0, np.asarray(alpha * L, dtype=np.float64)])   # float32 L: alpha*L as numpy rounds it
        if is_open(F_SCIPY) and not case.get("probe") and _scipy_nnls_wrong(Cg, d):
            # known finding: scipy.optimize.nnls itself returns a non-optimal point / inconsistent rnorm for the documented
            # normalised stacked system (degenerate dual: cell seen by no ray + diagonal Tikhonov matrix)
            ctx.label("excluded_known")
            continue
        ctx.check(x.shape == (n,) and bool(np.all(np.isfinite(x))), "shape", lambda: "bad solution %r%s" % (x.tolist(), tag))
        ctx.check(bool(np.all(x >= 0)), "nonneg", lambda: "negative entries %r%s" % (x.tolist(), tag))
        r = np.dot(C, x) - d
        g = np.dot(C.T, r)
        eps, nc = _eps(C, x, d, LS)
        sl = U32 * abs(alpha) * lfro * float(_norm(x))      # float32 Tikhonov matrix only: bound on |(fl32(alpha L) - alpha L) x|
        eps += 3.0 * abs(alpha) * lfro * sl
        ctx.check(bool(np.all(g >= -eps)), "kkt-dual",
                  lambda: "gradient C^T(Cx-d) has entry %.6g < -eps=%.3g at %d: x is not a minimiser over x>=0 (alpha=%g)%s"
                  % (float(g.min()), eps, int(np.argmin(g)), alpha, tag))
        xm = float(np.max(x)) if n else 0.0
        comp = np.abs(g) * x
        ctx.check(bool(np.all(comp <= eps * xm)), "kkt-complementarity",
                  lambda: "|g_i| x_i = %.6g > eps*max(x) = %.3g at %d (g_i=%.6g, x_i=%.6g, alpha=%g)%s"
                  % (float(comp.max()), eps * xm, int(np.argmax(comp)), float(g[np.argmax(comp)]), float(x[np.argmax(comp)]), alpha, tag))
        rn = float(_norm(r))
        ctx.check(abs(rnorm - rn) <= LS * (nc * float(_norm(x)) + float(_norm(d))) + sl, "rnorm",
                  lambda: "reported residual norm %.12g, but |Cx-d| = %.12g (max(b)=%g)%s" % (rnorm, rn, float(b0.max()), tag))
        if bool(np.any((x == 0) & (g > eps))):
            any_active = True
        results[call_no] = (x, np.array([rnorm]))
        if call_no == 1:
            first = (x, alpha, C, d)
    owned.verdict(ctx)
    if first is not None:
        _neg_compare(ctx, case, results, first[2], first[3])

        def solve(W2, b2, ca):
            C2, d2 = _cert(W2, b2, L0, ca * first[1])
            if is_open(F_SCIPY) and _scipy_nnls_wrong(C2, d2):
                return None
            kw2 = {"alpha": ca * first[1]}
            if L0 is not None:
                kw2["tikhonov_matrix"] = L0.copy()
            return np.array(invert_regularised_nnls(W2, b2, **kw2)[0], dtype=float)
        _lin_equiv(ctx, case, not lfro, solve, W0, b0, first[0], first[2], first[3])
    if any_active:
        ctx.label("active_constraint")
    ctx.nt(degenerate or rank < min(m, n) or any_active)


def run_lstsq(case, ctx):
    W0, b0, L0, W, b, L, owned, base, lfro = _reg_setup(case, ctx)
    m, n = W0.shape
    degenerate, rank, _, _ = w_classes(W0, ctx, b0)
    c_def_any = False
    first = None
    results = {}
    for call_no, prm in enumerate(_with_neg(case, _calls(case, base, ctx), ctx), 1):
        kw, alpha = _reg_kw(prm, L)
        _alpha_label(ctx, alpha)
        tag = "" if call_no == 1 else " [call %d on the same objects, alpha=%r]" % (call_no, alpha)
        if _unrepresentable(_cert(W0, b0, L0, alpha)[0]):
            ctx.label("skipped:pseudo_inverse_not_representable")
            continue
        with ctx.cut("call"):
            x, res = invert_regularised_lstsq(W, b, **kw)
            x = np.array(x, dtype=float)
            res = np.array(res, dtype=float).ravel()
        owned.scan(call_no)
        C, d = _cert(W0, b0, L0, alpha)
        ctx.check(x.shape == (n,) and bool(np.all(np.isfinite(x))), "shape", lambda: "bad solution %r%s" % (x.tolist(), tag))
        r = np.dot(C, x) - d
        g = np.dot(C.T, r)
        eps, nc = _eps(C, x, d, LS)
        sl = U32 * abs(alpha) * lfro * float(_norm(x))      # float32 Tikhonov matrix only, see run_nnls
        eps += 3.0 * abs(alpha) * lfro * sl
        ctx.check(float(_norm(g)) <= eps, "normal-equations",
                  lambda: "|C^T(Cx-d)| = %.6g > eps = %.3g: x does not minimise |Wx-b|^2 + alpha^2|Lx|^2 (alpha=%g)%s"
                  % (float(_norm(g)), eps, alpha, tag))
        ctx.check(res.size <= 1, "residuals-shape", "residuals of size %d" % res.size)
        sc = _svals(C)
        c_def = bool(sc.size and sc[0] > 0 and sc[-1] <= 1e-7 * sc[0]) or not (sc.size and sc[0] > 0)
        if res.size == 1:
            ctx.label("residuals:reported")
            rr = float(np.dot(r, r))
            scale = nc * float(_norm(x)) + float(_norm(d))
            tol = LS * scale ** 2 + sl * (2.0 * scale + sl)
            ctx.check(abs(float(res[0]) - rr) <= tol, "residuals",
                      lambda: "reported residual %.12g, but |Cx-d|^2 = %.12g%s" % (float(res[0]), rr, tag))
        else:
            ctx.label("residuals:empty")
        c_def_any = c_def_any or c_def
        results[call_no] = (x, res)
        if call_no == 1:
            first = (x, alpha, C, d)
    owned.verdict(ctx)
    if first is not None:
        _neg_compare(ctx, case, results, first[2], first[3])

        def solve(W2, b2, ca):
            kw2 = {"alpha": ca * first[1]}
            if L0 is not None:
                kw2["tikhonov_matrix"] = L0.copy()
            return np.array(invert_regularised_lstsq(W2, b2, **kw2)[0], dtype=float)
        _lin_equiv(ctx, case, not lfro, solve, W0, b0, first[0], first[2], first[3])
    if c_def_any:
        ctx.label("C:rank_deficient")
    ctx.nt(degenerate or rank < min(m, n) or c_def_any)


def _svals(C):
    return np.linalg.svd(C, compute_uv=False) if C.size else np.zeros(0)


def run_svd(case, ctx):
    owned = Owned()
    W0, b0, W, b = _wb(case, ctx, owned, "w_matrix", "b_vector")
    m, n = W0.shape
    ctx.label("b:" + case["b"]["kind"])
    degenerate, rank, amb, vh = w_classes(W0, ctx, b0)
    first = None
    # scipy.linalg.pinv computes in single precision for float32 and bool (also int8/16, float16) matrices and in double
    # precision for float64 / int32 / int64: the wrapper inherits that, so those inputs get a single-precision certificate.
    single = case.get("W_dtype", "float64") in ("float32", "bool")
    kappa = sr = None
    if _unrepresentable(W0):
        ctx.label("skipped:pseudo_inverse_not_representable")
        return
    if single:
        ctx.label("precision:single")
        sv = _svals(W0)
        smax = float(sv[0]) if sv.size else 0.0
        if smax > 0:
            if bool(np.any((sv >= 1e-14 * smax) & (sv <= 1e-4 * smax))):
                ctx.label("inconclusive:single_precision_rank_ambiguous")
                amb = True
            rank = int(np.sum(sv > 1e-4 * smax))
            sr = float(sv[rank - 1])
            kappa = smax / sr
        else:
            single = False                           # zero matrix: the answer is exactly 0 in any precision
    elif amb:
        ctx.label("inconclusive:min_norm_rank_ambiguous")
    for call_no, _ in enumerate(_calls(case, {}, ctx), 1):
        tag = "" if call_no == 1 else " [call %d on the same objects]" % call_no
        with ctx.cut("call"):
            x = invert_svd(W, b)
            x = np.array(x, dtype=float)
        owned.scan(call_no)
        ctx.check(x.shape == (n,) and bool(np.all(np.isfinite(x))), "shape",
                  lambda: "bad solution %r (shape %s)%s" % (x.tolist(), x.shape, tag))
        if single and amb:
            continue
        r = np.dot(W0, x) - b0
        g = np.dot(W0.T, r)
        eps, nc = _eps(W0, x, b0)
        nx, nb = float(_norm(x)), float(_norm(b0))
        # + rounding of the solve itself: x = V S^-1 U^T b carries an absolute error of order eps |b| / sigma_min(kept), which is
        # all there is when b is orthogonal to the range of W and the exact solution is 0
        _sv = _svals(W0)
        _sr = float(_sv[rank - 1]) if (not amb and rank > 0 and _sv.size >= rank) else 0.0
        mtol = 1e-8 * nx + (64.0 * np.finfo(float).eps * nb / _sr if _sr > 0 else 0.0)
        if single:
            eps = 10.0 * U32 * kappa * nc * (nc * nx + nb)
            mtol = 10.0 * U32 * kappa * (nx + nb / sr)
        ctx.check(float(_norm(g)) <= eps, "normal-equations",
                  lambda: "|W^T(Wx-b)| = %.6g > eps = %.3g: x is not a least-squares solution%s" % (float(_norm(g)), eps, tag))
        if not amb:
            null = vh[rank:]
            comp = float(_norm(np.dot(null, x))) if null.size else 0.0
            ctx.check(comp <= mtol, "minimum-norm",
                      lambda: "null-space component of x is %.6g > %.3g (|x| = %.6g, rank %d of n=%d): not the minimum-norm solution%s"
                      % (comp, mtol, nx, rank, n, tag))
        if call_no == 1:
            first = x
    owned.verdict(ctx)
    if first is not None and not single and not amb and rank > 0:
        # compare on the row space only: C1 = W restricted to its clear rank (pinv is continuous there)
        _lin_equiv(ctx, case, True, lambda W2, b2, ca: np.array(invert_svd(W2, b2), dtype=float), W0, b0, first,
                   np.dot(W0, vh[:rank].T) if rank < n else W0, b0)
    ctx.nt(degenerate or rank < n)


SUBCHECKS = {
    # thorough totals are 20% below DESIGN's 120 000: about half of the cases now make 2-3 certified calls (reuse relation)
    "sart": Given(sart_case, run_sart, quick=500, thorough=36000),
    "sart_fixed": Given(sart_fixed_case, run_sart_fixed, quick=200, thorough=12000),
    "nnls": Given(nnls_case, run_nnls, quick=400, thorough=24000),
    "lstsq": Given(lstsq_case, run_lstsq, quick=250, thorough=16000),
    "svd": Given(svd_case, run_svd, quick=150, thorough=8000),
}
