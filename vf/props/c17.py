"""C17 - voxel area / centroid / volume are exact and independent of vertex order; a grid's total volume is the
sum of its voxels' volumes; emissivity_from_function is an unbiased estimate of the area-mean (exact for constants).

Oracles (all independent of cherab/raysect geometry code):
  * exact integer/rational arithmetic on the *float* vertices: signed area, centroid and second moments of the polygon
    from the signed fan of triangles (O, v_i, v_i+1);
  * a-priori rounding bounds of the documented double-precision shoelace / Bourke sums (TOLERANCES);
  * the sampling distribution is observed through the emissivity callable itself (it records the (r, z) it is asked
    for); means and hit counts are compared with exact area fractions of an *independent* triangulation (fan from a
    kernel point for star-shaped polygons, own exact ear clipping for the non-star templates) under a non-asymptotic
    Bernstein bound at alpha = 2e-9 per test (the two-sided Gaussian "6 sigma" level).
"""
import atexit
import json
import math
import os
import signal
import traceback
from fractions import Fraction as Fr

import numpy as np
from hypothesis import strategies as st

from ..core import Given, Ctx, Violation, jsonable, deep
from ..findings import is_open

from raysect.core.math.random import seed as rs_seed
from raysect.core.math import triangulate2d            # used for NT labelling only, never for the oracle
from raysect.core.math.function.float import Arg3D, Constant3D
from raysect.core import translate, Point2D
from raysect.optical import World
from cherab.tools.inversions import AxisymmetricVoxel, ToroidalVoxelGrid

ID = "C17"
RULE = ("Polygons are built by construction in a local frame and then scaled by a length scale drawn log-uniformly from 1e-6 "
        "to 1e3 (micrometre to kilometre cells), optionally squeezed into a sliver (aspect ratio 10..1e6 along r or z), and "
        "placed at a radial offset "
        "(touching the axis, or 0.01..1e4 sizes away; <=1e2 for the sampling and grid sub-checks while finding "
        "C17-oob-triangle-index is open, <=1e5 afterwards) and a height offset of either sign: "
        "triangles, axis-aligned rectangles, convex polygons (affine images of polygons inscribed in a circle), star-shaped "
        "polygons with 4-10 vertices and radii 0.15..1 (mostly concave), quadrilaterals that pass weak rectangle tests "
        "without being rectangles (isosceles trapezoids with horizontal or vertical bases and 5-60 % taper, quadrilaterals "
        "with equal perpendicular diagonals and an axis-parallel edge, kites with equal axis-parallel diagonals, rectangles "
        "with one vertex displaced by <=20 %; on a 1/64 lattice, half of them with power-of-two scale and quarter-integer "
        "offsets so that edges and diagonals are exact in binary) and rotated/sheared/mirrored concave templates, mostly "
        "not star-shaped (general position: dart, bolt, ell, hook, coil, fork; with collinear vertices: L, U, comb, spiral "
        "- the latter only once finding C17-ear-clipping-collinear is closed; 4-12 vertices); primitive_type csg or mesh (mesh only when it gives 3..32 toroidal "
        "segments). geometry: every one of the 2n vertex orders (n cyclic rotations x 2 orientations) is constructed (mesh "
        "cases: one order per orientation as mesh, the others as csg) and compared with the exact rational area/centroid/volume; scale covariance: voxel(k*vertices) for k in "
        "{2^-13, 2^-7, 8, 1024} must give exactly k^2 A, k c, k^3 V (bit for bit) and for k in {1e-4, 1e-2, 10, 1e3} the "
        "same within the a-priori bound, each scaled voxel also against its own exact values (grid: total_volume of the "
        "scaled grid for one decimal and one binary k); radial offsets also 1e4..2e6 sizes at a height of a few sizes "
        "(R = 10 m, 1e-5 m cell); offsets are reduced until sum|x y|/(2 area) <= 1e9; coordinates are multiples of 2^floor(log2(1e-13 x diameter)) (equal or >= 1e-13 "
        "cell sizes apart: no subnormal radii, for which the CSG cone height |dz| r1/(r1-r2) underflows - outside the usable domain); non-trivial = concave or >=5 vertices. Every voxel is constructed from a drawn container kind (list of lists, list of tuples, list of "
        "Point2D, C-contiguous float64 (n,2) ndarray, strided ndarray view; grids also one (m,n,2) ndarray): the caller's "
        "container must be bit-identical after construction, is then shifted and reversed in place by the caller, and "
        "area/centroid/volume/vertices are re-read (must be unchanged; vertices = the input polygon as a cyclic sequence). "
        "sampling: one drawn "
        "vertex order (all 2n orders for the look-alike quadrilaterals, N=20000 for the drawn one and 6000 for the others), "
        "raysect RNG seeded from the case, N in {4000, 10000, 20000}; non-trivial = >=4 vertices, order rotated or "
        "reversed, and the triangles raysect's ear clipping makes for that order differ in area by >10 %. grid: 1-12 "
        "non-overlapping cells (lattice of rectangles / inscribed polygons), constructed with active='all' or a drawn index, "
        "with or without a parent World / transform, then driven through 0-6 drawn state-changing public calls "
        "(set_active('all'), set_active(i), rejected set_active, unparent_all_voxels, parent_all_voxels, grid.parent = "
        "World()/None, voxel.parent = None/grid/World()); count/len/iteration, every voxel's area/centroid/volume and "
        "total_volume (== sum of the voxels' reported volumes == sum of the exact volumes) are checked after construction "
        "and after every call, the emissivities in the final state; non-trivial = >=2 voxels with different volumes and at "
        "least one checked state in which only a proper subset of the voxels is parented to the grid (voxel list != scene-"
        "graph children). "
        "smalln: the estimator at small sample counts - grid_samples omitted (default 10), 1, 2, 3, 5, 7, 10: M = "
        "min(4000, 20000/n) independent calls (12000/n through ToroidalVoxelGrid.emissivities_from_function on 1-3 copies "
        "of the outline in drawn vertex orders, stacked in z), raysect RNG seeded once from the case; the M*n recorded "
        "sample points are pooled (they must be independent uniform draws) and tested for inside-ness, area shares of "
        "the independent triangulation, exact first moments (f = r, z) and centred second moments (f = r^2, r z, z^2), "
        "every returned value must be the mean of its n function values and the mean of the M returned values must "
        "match f(centroid) for a drawn linear field; non-trivial = raysect's triangles for a used vertex order differ in "
        "area by >10 %. "
        "distinct = distinct JSON case.")
ASSUMPTIONS = [
    "float vertices are taken as exact rationals; the oracle is Python integer arithmetic (signed triangle fan)",
    "cherab evaluates the documented shoelace / Bourke sums in IEEE double precision, one rounding per operation "
    "(an FMA contraction would only make the error smaller); the a-priori bound is first order in u = 2^-53",
    "raysect.core.math.random.seed makes uniform()/point_triangle() deterministic, and the samples are independent draws",
    "the emissivity callable is evaluated exactly at the sample points (it is how the sampling distribution is observed)",
    "rotated/sheared templates stay simple polygons: the affine map is invertible and rounding (1e-16 relative) is far "
    "below the smallest template feature; star-shapedness w.r.t. the kernel point and the orientation of every own "
    "triangle are re-verified exactly on the float vertices in run()",
]
SAFETY = 3.0
ALPHA = 2e-9
TOLERANCES = {
    "area": "3 x (n+2) u M/2, M = sum(|x_i y_i+1| + |x_i+1 y_i|): first-order bound of the n two-product differences "
            "(2u each) plus n-1 additions of the shoelace sum; u = 2^-53",
    "centroid": "3 x [ (n+4) u Mx/(6A) + |cx| ((n+2) u M/(2A) + 4u) ], Mx = sum |x_i + x_i+1| m_i: numerator sum, "
                "area in the denominator, product 6*area and the division (same for z)",
    "volume": "3 x [ 2 pi (e_cx A + |cx| e_A) + 6u V ] (propagated; PI constant and two products)",
    "invariance": "spread over the 2n vertex orders <= 2 x (1 x a-priori bound) + 1e-12 relative (DESIGN: 1e-12 for "
                  "well-conditioned polygons; the bound term only matters when offset^2/area is huge)",
    "constant": "bit-exact when every partial sum k*c (k <= N) is representable (c multiple of 2^-20, |c| <= 2^16), "
                "else 3 N u |c| (sequential sum of N equal terms)",
    "return-vs-samples": "returned value == sequential mean of the values the callable returned, 1e-12 relative",
    "statistical": "Bernstein: |mean - mu| <= [L R/3 + sqrt((L R/3)^2 + 2 N L var)]/N, L = ln(2/alpha), alpha = 2e-9 "
                   "per test (= two-sided 6 sigma); var exact from the polygon's second moments for linear fields and "
                   "indicators (p(1-p)), var <= R^2/4 with an interval-arithmetic range R for quadratics; plus the "
                   "rounding of the N-term sequential sum, 2 (N+8) u max|f| (1e-9 (|c0|+R) for the quadratic)",
    "smalln": "same Bernstein bound on the pooled M*n points (independent uniform draws under the property; false-alarm "
              "probability <= 2e-9 per test); exact variance p(1-p) for area shares and from the second moments for f = r, z, "
              "variance <= R^2/4 (interval range R about the centroid) for the second-moment fields; estimator-mean: M "
              "independent values with sigma = sigma_f / sqrt(n) and range R",
    "inside": "every sample point inside the polygon up to a per-axis coordinate uncertainty er = 1e-12 max|r|, ez = 1e-12 "
              "max(|z|, height) (4500 u: the barycentric interpolation carries a few u x |coordinate| per axis), i.e. "
              "edge cross product >= -(|dr| ez + |dz| er); hit counts use strict float orientation tests",
    "caller-memory": "bit-identical bytes before/after construction; numbers re-read after the caller modified its "
                     "container must be identical (==) to the first reading",
    "scale-covariance": "k a power of two: == (every operation scales exactly, no under/overflow between 1e-16 and 1e12); "
                        "decimal k: (2x3+2) x the a-priori bound of the unscaled polygon x k^p + 8u (k*x is rounded once "
                        "per coordinate: one more term of the same first-order bound)",
    "total_volume": "== Python sequential sum of voxel.volume to 1e-12 relative (same arithmetic) and == sum of exact "
                    "volumes within the summed volume bounds",
}
REQUIRED_LABELS = ["geometry:kind=tri", "geometry:kind=rect", "geometry:kind=convex", "geometry:kind=star",
                   "geometry:kind=tmpl", "geometry:prim=mesh", "geometry:prim=csg", "geometry:concave",
                   "geometry:on-axis", "sampling:nt", "sampling:kind=tmpl", "sampling:reversed", "grid:cells>=2",
                   "geometry:kind=trap", "geometry:kind=equidiag", "geometry:kind=kite", "geometry:kind=nearrect",
                   "sampling:kind=trap", "sampling:kind=equidiag", "sampling:kind=kite", "sampling:kind=nearrect",
                   "sampling:all-orders", "sampling:dyadic-exact-coordinates",
                   "geometry:input=list", "geometry:input=tuples", "geometry:input=point2d", "geometry:input=ndarray-c",
                   "geometry:input=ndarray-view", "sampling:input=list", "sampling:input=point2d",
                   "sampling:input=ndarray-c", "sampling:input=ndarray-view",
                   "grid:input=list", "grid:input=point2d", "grid:input=ndarray-c", "grid:input=ndarray-3d",
                   "geometry:size<1e-4", "geometry:size<1e-2", "geometry:size<1", "geometry:size<1e2", "geometry:size>=1e2",
                   "geometry:area<=1e-8", "geometry:area<=1e-12", "geometry:sliver>=1e3", "geometry:majorR>=1e4sizes",
                   "sampling:size<1e-4", "sampling:size>=1e2", "sampling:area<=1e-8", "sampling:sliver>=1e3",
                   "sampling:majorR>=1e4sizes", "grid:size<1e-4", "grid:size>=1e2", "grid:area<=1e-8",
                   "grid:ctor-active=all", "grid:ctor-active=int", "grid:ctor-parent=world", "grid:ctor-transform",
                   "grid:state=all-parented", "grid:state=one-parented", "grid:state=some-parented",
                   "grid:state=none-parented", "grid:state=grid-in-world", "grid:state=grid-detached",
                   "grid:state=voxel-in-other-node",
                   "grid:op=set_active_all", "grid:op=set_active", "grid:op=set_active_rejected", "grid:op=unparent_all",
                   "grid:op=parent_all", "grid:op=grid_parent", "grid:op=voxel_parent", "grid:nt",
                   "smalln:samples=default", "smalln:samples=1", "smalln:samples=2", "smalln:samples=3", "smalln:samples=10", "smalln:entry=voxel",
                   "smalln:entry=grid", "smalln:reversed", "smalln:forward", "smalln:nt"]

# open finding C17-oob-triangle-index: emissivity_from_function reads one past its triangle table with probability
# ~ (r z / area) * 1e-16 per sample.  While it is open the sampling / grid sub-checks keep cells within 1e2 sizes of the
# origin (<= 1e-11 per sample); once fixed, offsets up to 1e5 sizes are sampled as well.
OOB_OPEN = is_open("C17-oob-triangle-index")
SAMPLING_GMAX = 2 if OOB_OPEN else 5

U = 2.0 ** -53
TWO_PI = 2.0 * math.pi
L_ALPHA = math.log(2.0 / ALPHA)


# ------------------------------------------------------------------------------------------------ exact oracle
def _to_ints(verts):
    """float vertices -> integer coordinates X, Y and shift e with x = X / 2^e (exact)."""
    e = 0
    for p in verts:
        for c in p:
            d = float(c).as_integer_ratio()[1]
            e = max(e, d.bit_length() - 1)
    P = []
    for p in verts:
        n0, d0 = float(p[0]).as_integer_ratio()
        n1, d1 = float(p[1]).as_integer_ratio()
        P.append((n0 * ((1 << e) // d0), n1 * ((1 << e) // d1)))
    return P, e


def _orient(a, b, c):
    return (b[0] - a[0]) * (c[1] - a[1]) - (b[1] - a[1]) * (c[0] - a[0])


class Exact:
    """Exact area, centroid, second moments (about the origin) of the polygon with the given float vertices."""

    def __init__(self, verts):
        P, e = _to_ints(verts)
        n = len(P)
        A2 = Sx = Sy = Sxx = Syy = Sxy = 0
        for i in range(n):
            x0, y0 = P[i]
            x1, y1 = P[(i + 1) % n]
            c = x0 * y1 - x1 * y0                      # 2 x signed area of (O, v_i, v_i+1)
            A2 += c
            Sx += (x0 + x1) * c                        # 6 x integral of x
            Sy += (y0 + y1) * c
            Sxx += (x0 * x0 + x0 * x1 + x1 * x1) * c   # 12 x integral of x^2
            Syy += (y0 * y0 + y0 * y1 + y1 * y1) * c
            Sxy += (x0 * y0 + x1 * y1 + (x0 + x1) * (y0 + y1)) * c    # 24 x integral of x y
        self.P, self.e, self.n = P, e, n
        self.A2i = A2
        self.degenerate = (A2 == 0)
        if self.degenerate:
            return
        self.sign = 1 if A2 > 0 else -1                # +1: counter-clockwise in the (r, z) plane
        s1, s2 = 1 << e, 1 << (2 * e)
        self.A = Fr(abs(A2), 2 * s2)
        self.cx = Fr(Sx, 3 * A2 * s1)
        self.cy = Fr(Sy, 3 * A2 * s1)
        self.Exx = Fr(Sxx, 6 * A2 * s2)
        self.Eyy = Fr(Syy, 6 * A2 * s2)
        self.Exy = Fr(Sxy, 12 * A2 * s2)
        self.V = 2 * self.cx * self.A                  # volume / pi
        self.fA, self.fcx, self.fcy = float(self.A), float(self.cx), float(self.cy)
        self.fV = math.pi * float(self.V)
        self.var_x = max(0.0, float(self.Exx - self.cx * self.cx))
        self.var_y = max(0.0, float(self.Eyy - self.cy * self.cy))
        self.cov = float(self.Exy - self.cx * self.cy)

    def tri_fraction(self, a, b, c):
        """exact (area of triangle given by three float points) / (polygon area), as float; and its orientation sign."""
        T, e = _to_ints([a, b, c])
        o = _orient(T[0], T[1], T[2])
        return Fr(abs(o), 1 << (2 * e)) / (2 * self.A), (o > 0) - (o < 0)


def rounding_bounds(verts, ex):
    """first-order a-priori bounds of the double-precision shoelace / Bourke evaluation (see TOLERANCES)."""
    n = len(verts)
    M = Mx = My = 0.0
    for i in range(n):
        x0, y0 = verts[i]
        x1, y1 = verts[(i + 1) % n]
        m = abs(x0 * y1) + abs(x1 * y0)
        M += m
        Mx += abs(x0 + x1) * m
        My += abs(y0 + y1) * m
    A = ex.fA
    eA = (n + 2) * U * M / 2
    rel = (n + 2) * U * M / (2 * A) + 4 * U
    ecx = (n + 4) * U * Mx / (6 * A) + abs(ex.fcx) * rel
    ecy = (n + 4) * U * My / (6 * A) + abs(ex.fcy) * rel
    eV = TWO_PI * (ecx * A + abs(ex.fcx) * eA) + 6 * U * abs(ex.fV)
    return {"A": eA, "cx": ecx, "cy": ecy, "V": eV, "kappa": M / (2 * A)}


def _selftest():
    sq = Exact([[0.0, 0.0], [1.0, 0.0], [1.0, 1.0], [0.0, 1.0]])
    assert (sq.A, sq.cx, sq.cy, sq.Exx, sq.Eyy, sq.Exy, sq.sign) == (1, Fr(1, 2), Fr(1, 2), Fr(1, 3), Fr(1, 3), Fr(1, 4), 1)
    ell = Exact([[0.5, 0.0], [0.5, 2.0], [1.5, 2.0], [1.5, 1.0], [2.5, 1.0], [2.5, 0.0]])      # clockwise L, area 3
    assert (ell.A, ell.sign, ell.cx, ell.cy) == (3, -1, Fr(4, 3), Fr(5, 6))     # 2x1 block at (1, 1) + 1x1 block at (2, 1/2)
    tr = Exact([[0.0, 0.0], [1.0, 0.0], [0.0, 1.0]])
    assert (tr.A, tr.cx, tr.Exy, tr.Exx) == (Fr(1, 2), Fr(1, 3), Fr(1, 12), Fr(1, 6))


_selftest()


def bernstein(N, sd, R):
    """t with P(|mean_N - mu| >= t) <= ALPHA for independent draws with standard deviation <= sd and range <= R.

    Bernstein: P(|mean - mu| >= t) <= 2 exp(-N t^2 / (2 sd^2 + 2 R t / 3)); solved for t at probability ALPHA.
    (written with hypot so that tiny coefficients do not underflow sd^2)"""
    a = L_ALPHA * R / 3.0
    return (a + math.hypot(a, sd * math.sqrt(2.0 * N * L_ALPHA))) / N


def lin_sd(a, b, ex):
    """standard deviation of a*r + b*z over the polygon (uniform), without squaring the coefficients."""
    m = max(abs(a), abs(b))
    if m == 0.0:
        return 0.0
    an, bn = a / m, b / m
    return m * math.sqrt(max(0.0, an * an * ex.var_x + 2 * an * bn * ex.cov + bn * bn * ex.var_y))


# ------------------------------------------------------------------------------------------------ templates
def _segments_cross(p, q, r, s):
    """closed segments pq and rs share a point (exact, integer coordinates)."""
    o1, o2, o3, o4 = _orient(p, q, r), _orient(p, q, s), _orient(r, s, p), _orient(r, s, q)
    if ((o1 > 0) != (o2 > 0)) and o1 != 0 and o2 != 0 and ((o3 > 0) != (o4 > 0)) and o3 != 0 and o4 != 0:
        return True

    def on(a, b, c):   # c on closed segment ab, given collinear
        return min(a[0], b[0]) <= c[0] <= max(a[0], b[0]) and min(a[1], b[1]) <= c[1] <= max(a[1], b[1])
    return (o1 == 0 and on(p, q, r)) or (o2 == 0 and on(p, q, s)) or (o3 == 0 and on(r, s, p)) or (o4 == 0 and on(r, s, q))


def is_simple(P):
    n = len(P)
    for i in range(n):
        if _orient(P[i - 1], P[i], P[(i + 1) % n]) == 0:
            return False
        for j in range(i + 1, n):
            if j == i or (j + 1) % n == i or (i + 1) % n == j:
                continue
            if _segments_cross(P[i], P[(i + 1) % n], P[j], P[(j + 1) % n]):
                return False
    return True


def ear_clip(P):
    """own exact ear clipping of a counter-clockwise simple polygon (takes the LAST proper ear; raysect takes the first)."""
    idx = list(range(len(P)))
    tris = []
    while len(idx) > 3:
        m = len(idx)
        for k in range(m - 1, -1, -1):
            i0, i1, i2 = idx[k - 1], idx[k], idx[(k + 1) % m]
            a, b, c = P[i0], P[i1], P[i2]
            if _orient(a, b, c) <= 0:
                continue
            if any(j not in (i0, i1, i2) and _orient(a, b, P[j]) >= 0 and _orient(b, c, P[j]) >= 0
                   and _orient(c, a, P[j]) >= 0 for j in idx):
                continue
            tris.append([i0, i1, i2])
            idx.pop(k)
            break
        else:
            raise AssertionError("no ear")
    tris.append(list(idx))
    return tris


# non-star-shaped (and a few star-shaped) concave outlines on an integer lattice, counter-clockwise.  The first group has
# three or more vertices on a common line (rectilinear outlines); the second group is in general position (no three
# vertices collinear, smallest |orient| >= 16 lattice units^2 on a ~100 unit outline).
_TEMPLATES = {
    "L": [(0, 0), (2, 0), (2, 1), (1, 1), (1, 2), (0, 2)],
    "U": [(0, 0), (3, 0), (3, 3), (2, 3), (2, 1), (1, 1), (1, 3), (0, 3)],
    "comb": [(0, 0), (5, 0), (5, 3), (4, 3), (4, 1), (3, 1), (3, 3), (2, 3), (2, 1), (1, 1), (1, 3), (0, 3)],
    "spiral": [(0, 0), (4, 0), (4, 4), (1, 4), (1, 2), (2, 2), (2, 3), (3, 3), (3, 1), (0, 1)],
    "dart": [(0, 0), (2, 1), (4, 0), (2, 4)],
    "bolt": [(0, -2), (40, 9), (32, 22), (62, 42), (9, 30), (20, 20)],
    "ell": [(0, -1), (20, -2), (22, 12), (10, 10), (8, 18), (0, 18)],
    "hook": [(2, 1), (70, 10), (80, 89), (52, 80), (58, 28), (19, 21), (31, 100), (-8, 70)],
    "coil": [(1, -1), (92, 8), (79, 99), (19, 92), (32, 39), (50, 52), (38, 68), (70, 61), (58, 22), (11, 32)],
    "fork": [(-1, 1), (112, 10), (98, 81), (80, 72), (88, 30), (68, 21), (60, 92), (38, 81), (49, 28), (22, 19), (29, 102), (-10, 88)],
}
TEMPLATES = {}
GENERAL_POSITION = set()
for _name, _pts in sorted(_TEMPLATES.items()):
    for _mirror in (0, 1):
        _p = [(-x, y) for x, y in reversed(_pts)] if _mirror else list(_pts)
        assert is_simple(_p), _name
        assert sum(_orient((0, 0), _p[i], _p[(i + 1) % len(_p)]) for i in range(len(_p))) > 0, _name
        _t = ear_clip(_p)
        assert all(_orient(_p[a], _p[b], _p[c]) > 0 for a, b, c in _t), _name
        assert sum(_orient(_p[a], _p[b], _p[c]) for a, b, c in _t) == \
            sum(_orient((0, 0), _p[i], _p[(i + 1) % len(_p)]) for i in range(len(_p))), _name
        TEMPLATES["%s/%d" % (_name, _mirror)] = (_p, _t)
        if not any(_orient(_p[a], _p[b], _p[c]) == 0 for a in range(len(_p)) for b in range(a) for c in range(b)):
            GENERAL_POSITION.add("%s/%d" % (_name, _mirror))
assert len(GENERAL_POSITION) == 12, sorted(GENERAL_POSITION)
# open finding C17-ear-clipping-collinear: raysect's ear clipping (called by the voxel constructor) raises "no ear" for
# some vertex orders of outlines with >= 3 (nearly) collinear non-adjacent vertices; while open only the general-position
# templates are generated.
COLLINEAR_OPEN = is_open("C17-ear-clipping-collinear")
TEMPLATE_KEYS = sorted(GENERAL_POSITION) if COLLINEAR_OPEN else sorted(TEMPLATES)


# ------------------------------------------------------------------------------------------------ strategies
def _fractions(ws, gamma):
    n = len(ws)
    s = sum(ws)
    return [(1.0 - gamma) / n + gamma * w / s for w in ws]


@st.composite
def local_shape(draw, kinds):
    """polygon in a local frame, counter-clockwise: {"kind", "local": [[x, y], ...], "kernel": [x, y] | None, "tris"}."""
    kind = draw(st.sampled_from(kinds))
    if kind == "rect":
        w = draw(st.floats(0.05, 1.0))
        h = draw(st.floats(0.05, 1.0))
        return {"kind": kind, "local": [[0.0, 0.0], [w, 0.0], [w, h], [0.0, h]], "kernel": [w / 2, h / 2], "tris": None}
    if kind in LOOKALIKE:
        # quadrilaterals that pass weak "is it an axis-aligned rectangle" tests (4 vertices / equal diagonals / an
        # axis-parallel edge) without being rectangles; integer lattice / 64 so that with a power-of-two scale and
        # quarter-integer offsets ("dyadic") every coordinate, edge vector and diagonal length is exact in binary
        if kind == "trap":            # isosceles trapezoid, taper (b1 - b2)/b1 = 2e/b1 in 5..60 %
            b1 = draw(st.integers(20, 64))
            e = draw(st.integers(max(1, -(-b1 // 40)), (3 * b1) // 10))
            hh = draw(st.integers(8, 64))
            q = [(0, 0), (b1, 0), (b1 - e, hh), (e, hh)] if draw(st.booleans()) else [(e, 0), (b1 - e, 0), (b1, hh), (0, hh)]
        elif kind == "equidiag":      # equal, perpendicular diagonals, first edge on an axis
            pp = draw(st.integers(8, 48))
            qq = draw(st.integers(8, 48))
            w = draw(st.integers(4, max(4, min(64, (pp * pp + qq * qq - 1) // max(pp, qq)))))
            q = [(0, 0), (w, 0), (pp, qq), (w - qq, pp)]
        elif kind == "kite":          # kite with equal axis-parallel diagonals
            d2 = draw(st.integers(8, 32))
            u = draw(st.integers(2, 2 * d2 - 2))
            q = [(0, -u), (d2, 0), (0, 2 * d2 - u), (-d2, 0)]
        else:                         # "nearrect": rectangle with one vertex displaced by up to 20 %
            w = draw(st.integers(16, 64))
            hh = draw(st.integers(16, 64))
            q = [[0, 0], [w, 0], [w, hh], [0, hh]]
            j = draw(st.integers(0, 3))
            dx = draw(st.integers(-(w // 5), w // 5))
            dy = draw(st.integers(-(hh // 5), hh // 5))
            if dx == 0 and dy == 0:
                dx = w // 5
            q[j] = [q[j][0] + dx, q[j][1] + dy]
        if draw(st.booleans()):       # bases / first edge vertical instead of horizontal (mirror, so reverse the order)
            q = [(y, x) for x, y in reversed(q)]
        loc = [[x / 64.0, y / 64.0] for x, y in q]
        return {"kind": kind, "local": loc, "kernel": [sum(p[0] for p in loc) / 4, sum(p[1] for p in loc) / 4], "tris": None,
                "dyadic": draw(st.booleans())}
    if kind == "tmpl":
        key = draw(st.sampled_from(TEMPLATE_KEYS))
        pts, tris = TEMPLATES[key]
        th = draw(st.one_of(st.sampled_from([0.0, math.pi / 2, math.pi, -math.pi / 2]), st.floats(-math.pi, math.pi)))
        k = draw(st.one_of(st.just(0.0), st.floats(-0.5, 0.5)))
        ext = max(max(abs(x), abs(y)) for x, y in pts)
        sc = 1.0 / (1.2 * ext)
        c, s = (round(math.cos(th)), round(math.sin(th))) if th in (0.0, math.pi / 2, math.pi, -math.pi / 2) \
            else (math.cos(th), math.sin(th))
        loc = []
        for x, y in pts:
            xs, ys = (x + k * y) * sc, y * sc
            loc.append([c * xs - s * ys, s * xs + c * ys])
        return {"kind": kind, "tmpl": key, "local": loc, "kernel": None, "tris": [list(t) for t in tris]}
    if kind == "tri":
        n = 3
    elif kind == "convex":
        n = draw(st.integers(4, 10))
    else:
        n = draw(st.integers(4, 10))
    ws = draw(st.lists(st.floats(0.2, 1.0), min_size=n, max_size=n))
    fr = _fractions(ws, 0.4 if n == 3 else 0.5)            # every angular gap < pi (see module docstring / run check)
    th0 = draw(st.floats(0.0, TWO_PI))
    if kind == "star":
        rho = draw(st.lists(st.floats(0.15, 1.0), min_size=n, max_size=n))
    elif kind == "tri":
        rho = draw(st.lists(st.floats(0.3, 1.0), min_size=n, max_size=n))
    else:
        rho = [1.0] * n
    sx = draw(st.floats(0.2, 1.0))
    sy = draw(st.floats(0.2, 1.0))
    loc, th = [], th0
    for i in range(n):
        loc.append([sx * rho[i] * math.cos(th), sy * rho[i] * math.sin(th)])
        th += TWO_PI * fr[i]
    return {"kind": kind, "local": loc, "kernel": [0.0, 0.0], "tris": None}


def quantise(verts):
    """Round every coordinate to a multiple of q = 2^floor(log2(1e-13 x diameter)).  Coordinates (and coordinate
    differences) are then either exactly equal or at least 1e-13 cell sizes apart: no subnormal radii such as r = 8e-313
    next to r = 0, which Hypothesis produces from denormal shear / rotation parameters.  Such inputs are outside the
    usable domain of the constructor, not a finding: the CSG builder evaluates |dz| * r1 / (r1 - r2) for a cone height,
    which underflows to 0 for a subnormal radius (raysect then rejects the Cone).  Dyadic lattice coordinates are
    multiples of q already and stay bit-identical."""
    r1, r2 = min(p[0] for p in verts), max(p[0] for p in verts)
    z1, z2 = min(p[1] for p in verts), max(p[1] for p in verts)
    diam = math.hypot(r2 - r1, z2 - z1)
    if not (diam > 1e-280):
        return verts
    q = 2.0 ** math.floor(math.log2(diam * 1e-13))
    return [[round(p[0] / q) * q, round(p[1] / q) * q] for p in verts]


def place(shape, s, g, h, ar=1.0, az=1.0):
    """scale by s (and by the anisotropy factors ar, az <= 1 along r, z: slivers), put the innermost vertex at r = g*s
    (g = 0: on the axis), shift heights by h*s.  An orientation-preserving affine map: simple polygons stay simple,
    star-shaped ones stay star-shaped w.r.t. the mapped kernel, triangulations stay triangulations."""
    loc = shape["local"]
    xmin = min(p[0] for p in loc)
    r_lo = g * s
    sr, sz = s * ar, s * az
    verts = quantise([[r_lo + (p[0] - xmin) * sr, h * s + p[1] * sz] for p in loc])
    kern = None
    if shape["kernel"] is not None:
        kern = [r_lo + (shape["kernel"][0] - xmin) * sr, h * s + shape["kernel"][1] * sz]
    return verts, kern


def mesh_segments(verts, ex):
    width = max(p[0] for p in verts) - min(p[0] for p in verts)
    return TWO_PI * ex.fcx / width if width > 0 else float("inf")


KAPPA_MAX = 1e9     # offsets are reduced until (sum |x_i y_j|) / (2 area) <= 1e9: beyond that the double-precision shoelace
#                     sums of the code under test (and raysect's orientation predicates) lose more than ~1e-6 relative


def _finish_poly(shape, s, gh, aniso, prim, inp="list"):
    g, h = gh
    ar, az = aniso
    if shape.get("dyadic"):          # exact binary coordinates: power-of-two scale, quarter-integer offsets
        s = 2.0 ** round(math.log2(s))
        g = round(g * 4.0) / 4.0
        h = round(h * 4.0) / 4.0
        ar = 2.0 ** round(math.log2(ar))
        az = 2.0 ** round(math.log2(az))
    for _ in range(12):
        verts, kern = place(shape, s, g, h, ar, az)
        ex = Exact(verts)
        if ex.degenerate:
            return None
        if rounding_bounds(verts, ex)["kappa"] <= KAPPA_MAX:
            break
        g, h = (g / 8.0, h / 8.0) if not shape.get("dyadic") else (round(g / 2.0) / 4.0, round(h / 2.0) / 4.0)
    else:
        return None
    if prim == "mesh" and not (3.2 <= mesh_segments(verts, ex) <= 32.0):
        prim = "csg"
    out = {"kind": shape["kind"], "verts": verts, "kernel": kern, "tris": shape["tris"], "prim": prim, "input": inp}
    if shape.get("dyadic"):
        out["dyadic"] = True
    if "tmpl" in shape:
        out["tmpl"] = shape["tmpl"]
    return out if validate(out, ex) else None


def _offsets(gmax):
    dec = st.floats(-2.0, float(gmax)).map(lambda e: 10.0 ** e)
    g = st.one_of(st.just(0.0), st.floats(0.01, 3.0), dec, st.floats(0.01, 3.0), dec)
    mag = st.one_of(st.just(0.0), st.floats(0.01, 3.0), dec, st.floats(0.01, 3.0), dec)
    h = st.builds(lambda m, neg: -m if neg else m, mag, st.booleans())
    return g, h


LOOKALIKE = ("trap", "equidiag", "kite", "nearrect")
KINDS = ["tri", "rect", "convex", "star", "star", "tmpl", "tmpl", "trap", "trap", "equidiag", "kite", "nearrect"]
INPUT_KINDS = ["list", "tuples", "point2d", "ndarray-c", "ndarray-c", "ndarray-view"]


def _offset_pair(gmax):
    """(g, h) in units of the size: independent offsets up to 10^gmax sizes, or a large major radius (1e4 .. 2e6 sizes:
    R = 10 m with a 1e-5 m cell) at a height of a few sizes."""
    g, h = _offsets(gmax)
    large_r = st.tuples(st.floats(4.0, 6.3).map(lambda e: 10.0 ** e),
                        st.builds(lambda m, neg: -m if neg else m, st.floats(0.0, 10.0), st.booleans()))
    return st.one_of(st.tuples(g, h), st.tuples(g, h), st.tuples(g, h), large_r)


# length scale of the cell: micrometres to kilometres, log-uniform
SCALE = st.one_of(st.floats(-6.0, 3.0), st.floats(-6.0, 3.0), st.sampled_from([-6.0, -5.0, -4.0, 3.0])).map(lambda e: 10.0 ** e)
# anisotropy: isotropic, or a sliver squeezed by 10 .. 1e6 along r or z
ANISO = st.one_of(st.just([1.0, 1.0]), st.just([1.0, 1.0]),
                  st.tuples(st.floats(1.0, 6.0), st.booleans()).map(lambda t: [10.0 ** -t[0], 1.0] if t[1] else [1.0, 10.0 ** -t[0]]))


def poly_strategy(gmax, kinds=KINDS):
    prim = st.sampled_from(["csg", "csg", "mesh"])
    return st.builds(_finish_poly, local_shape(kinds), SCALE, _offset_pair(gmax), ANISO, prim,
                     st.sampled_from(INPUT_KINDS)).filter(lambda p: p is not None)


def geometry_strategy():
    return poly_strategy(4)


_const = st.one_of(st.integers(-1000, 1000).map(float),
                   st.integers(-(1 << 20), 1 << 20).map(lambda k: k / 1024.0),
                   st.floats(-1e6, 1e6), st.sampled_from([0.0, 5.0, 0.1, 1 / 3, 1e-30, 6.02e23]))
# coefficients: exactly zero or 1e-6 <= |c| <= 10 (no subnormal-scale fields: they only exercise underflow of the oracle)
_coef = st.one_of(st.floats(-10.0, 10.0).map(lambda x: 0.0 if abs(x) < 1e-6 else x), st.sampled_from([0.0, 1.0, -1.0]))


def sampling_strategy():
    return st.fixed_dictionaries({
        "poly": poly_strategy(SAMPLING_GMAX),
        "rot": st.integers(0, 11),
        "rev": st.booleans(),
        "seed": st.integers(1, 2 ** 31 - 1),
        "n": st.sampled_from([4000, 10000, 20000]),
        "const": _const,
        "lin": st.tuples(st.floats(-100.0, 100.0), _coef, _coef).map(list),
        "quad": st.tuples(_coef, _coef, _coef).map(list),
    })


@st.composite
def grid_strategy(draw):
    ntot = deep(12, 48)                      # voxels per grid
    nr = draw(st.one_of(st.integers(1, 12), st.integers(1, ntot)))
    nz = draw(st.integers(1, max(1, ntot // nr)))
    s = draw(SCALE)
    g, h = _offsets(SAMPLING_GMAX)
    r0 = draw(g) * s
    z0 = draw(h) * s
    wr = draw(st.lists(st.floats(0.2, 1.0), min_size=nr, max_size=nr))
    wz = draw(st.lists(st.floats(0.2, 1.0), min_size=nz, max_size=nz))
    redges, zedges = [r0], [z0]
    for w in wr:
        redges.append(redges[-1] + w * s)
    for w in wz:
        zedges.append(zedges[-1] + w * s)
    rev_all = draw(st.booleans())
    input_kind = draw(st.sampled_from(["list", "point2d", "ndarray-c", "ndarray-c", "ndarray-3d"]))
    uniform_kind = draw(st.sampled_from(["rect", "tris"]))      # one (m, n, 2) array needs cells with equal vertex counts
    cells = []
    for i in range(nr):
        for j in range(nz):
            ra, rb, za, zb = redges[i], redges[i + 1], zedges[j], zedges[j + 1]
            kind = uniform_kind if input_kind == "ndarray-3d" else draw(st.sampled_from(["rect", "rect", "tris", "shape"]))
            if kind == "rect":
                polys = [[[ra, za], [rb, za], [rb, zb], [ra, zb]]]
            elif kind == "tris":                      # the cell split along a diagonal (typical unstructured grids)
                if draw(st.booleans()):
                    polys = [[[ra, za], [rb, za], [rb, zb]], [[ra, za], [rb, zb], [ra, zb]]]
                else:
                    polys = [[[ra, za], [rb, za], [ra, zb]], [[rb, za], [rb, zb], [ra, zb]]]
            else:                                     # a polygon inscribed in the cell (affine fit of a local shape)
                sh = draw(local_shape(["tri", "convex", "star", "tmpl"]))
                loc = sh["local"]
                x0, x1 = min(p[0] for p in loc), max(p[0] for p in loc)
                y0, y1 = min(p[1] for p in loc), max(p[1] for p in loc)
                polys = [quantise([[ra + (p[0] - x0) / (x1 - x0) * (rb - ra) * 0.999, za + (p[1] - y0) / (y1 - y0) * (zb - za) * 0.999]
                                   for p in loc])]
            for p in polys:
                k = draw(st.integers(0, len(p) - 1))
                p = p[k:] + p[:k]
                if rev_all != draw(st.booleans()):
                    p = p[::-1]
                cells.append(p)
    if len(cells) > 12:
        cells = cells[:12]
    prim = draw(st.sampled_from(["csg", "csg", "mesh"]))
    if prim == "mesh":
        for p in cells:
            ex = Exact(p)
            if ex.degenerate or not (3.2 <= mesh_segments(p, ex) <= 32.0):
                prim = "csg"
                break
    idx = st.integers(0, 11)                  # voxel indices are taken modulo the number of voxels in run()
    ctor = {"active": draw(st.one_of(st.just("all"), idx)), "world": draw(st.booleans()), "transform": draw(st.booleans())}
    op = st.one_of(
        st.just(["set_active_all", None]),
        idx.map(lambda i: ["set_active", i]),
        st.sampled_from([["set_active_rejected", "past-end"], ["set_active_rejected", -1], ["set_active_rejected", "none"],
                         ["set_active_rejected", None], ["set_active_rejected", 1.0]]),
        st.just(["unparent_all", None]),
        st.just(["parent_all", None]),
        st.sampled_from([["grid_parent", "world"], ["grid_parent", "none"]]),
        st.tuples(idx, st.sampled_from(["none", "grid", "world"])).map(lambda t: ["voxel_parent", [t[0], t[1]]]),
    )
    ops = draw(st.lists(op, min_size=0, max_size=6))
    return {"cells": cells, "prim": prim, "ctor": ctor, "ops": ops, "const": draw(_const),
            "input": input_kind,
            "k": [draw(st.sampled_from(KS_DEC)), draw(st.sampled_from(KS_POW2))],
            "lin": [draw(st.floats(-100.0, 100.0)), draw(_coef), draw(_coef)],
            "seed": draw(st.integers(1, 2 ** 31 - 1)), "n": draw(st.sampled_from([10, 1000, 4000]))}


# ------------------------------------------------------------------------------------------------ helpers for run
def validate(poly, ex):
    """exact re-verification that the case is a simple polygon of the advertised class (used by strategy and run)."""
    verts = poly["verts"]
    if len(verts) < 3 or ex.degenerate or ex.sign != 1:
        return False
    if min(p[0] for p in verts) < 0:
        return False
    P = ex.P
    if poly["kernel"] is not None:           # star-shaped w.r.t. the kernel, angles increase monotonically by construction
        K, e = _to_ints(list(verts) + [poly["kernel"]])
        k = K[-1]
        return all(_orient(k, K[i], K[(i + 1) % ex.n]) > 0 for i in range(ex.n))
    tris = poly["tris"]
    if not tris or len(tris) != ex.n - 2:
        return False
    if not all(_orient(P[a], P[b], P[c]) > 0 for a, b, c in tris):
        return False
    return sum(_orient(P[a], P[b], P[c]) for a, b, c in tris) == ex.A2i and is_simple(P)


def own_triangles(poly):
    """independent triangulation as coordinate triples (counter-clockwise)."""
    v = poly["verts"]
    n = len(v)
    if poly["kernel"] is not None:
        k = poly["kernel"]
        return [[k, v[i], v[(i + 1) % n]] for i in range(n)]
    return [[v[a], v[b], v[c]] for a, b, c in poly["tris"]]


def variant(verts, rot, rev):
    n = len(verts)
    k = rot % n
    out = [list(p) for p in (verts[k:] + verts[:k])]
    return out[::-1] if rev else out


def is_concave(ex):
    P, n = ex.P, ex.n
    return any(_orient(P[i - 1], P[i], P[(i + 1) % n]) * ex.sign < 0 for i in range(n))


def raysect_triangle_areas(verts):
    """areas of the triangles raysect's ear clipping yields for this vertex order (labelling only)."""
    a = np.array(verts, dtype=float)
    if Exact(verts).sign == 1:     # AxisymmetricVoxel stores the polygon clockwise before triangulating
        a = a[::-1].copy()
    try:
        t = triangulate2d(a)
    except Exception:  # noqa
        return []
    p = a[t]
    return list(0.5 * np.abs((p[:, 1, 0] - p[:, 0, 0]) * (p[:, 2, 1] - p[:, 0, 1]) - (p[:, 1, 1] - p[:, 0, 1]) * (p[:, 2, 0] - p[:, 0, 0])))


def _scale_labels(ctx, verts, area):
    r1, r2 = min(p[0] for p in verts), max(p[0] for p in verts)
    z1, z2 = min(p[1] for p in verts), max(p[1] for p in verts)
    diam = math.hypot(r2 - r1, z2 - z1)
    ctx.label("size<1e-4" if diam < 1e-4 else "size<1e-2" if diam < 1e-2 else "size<1" if diam < 1.0 else
              "size<1e2" if diam < 1e2 else "size>=1e2")
    if area <= 1e-8:
        ctx.label("area<=1e-8")
    if area <= 1e-12:
        ctx.label("area<=1e-12")
    if diam * diam >= 1e3 * area:
        ctx.label("sliver>=1e3")
    if r1 >= 1e4 * diam:
        ctx.label("majorR>=1e4sizes")


KS_DEC = [1e-4, 1e-2, 10.0, 1e3]
KS_POW2 = [2.0 ** -13, 2.0 ** -7, 8.0, 1024.0]


def _scaled(verts, k):
    return [[k * p[0], k * p[1]] for p in verts]


def _labels(ctx, poly, ex):
    ctx.label("kind=" + poly["kind"], "prim=" + poly["prim"], "n=%d" % ex.n)
    conc = is_concave(ex)
    if conc:
        ctx.label("concave")
    if poly["kind"] == "tmpl":
        ctx.label("tmpl=" + str(poly.get("tmpl", "?")).split("/")[0])
        if COLLINEAR_OPEN:
            ctx.label("excluded_known:collinear-templates")
    if min(p[0] for p in poly["verts"]) == 0.0:
        ctx.label("on-axis")
    if poly.get("dyadic"):
        ctx.label("dyadic-exact-coordinates")
    _scale_labels(ctx, poly["verts"], ex.fA)
    return conc


def _near(ctx, got, want, what, tol, info):
    """scalar |got - want| <= tol (NaN fails)."""
    if not abs(got - want) <= tol:
        ctx.fail(what, "|got-want|=%.6g > tol %.3g: got %r want %r %s" % (abs(got - want), tol, got, want, info))


def _check_voxel_numbers(ctx, vox, ex, bd, tag):
    """area / centroid / volume of one constructed voxel against the exact values."""
    with ctx.cut("accessors"):
        a = vox.cross_sectional_area
        c = vox.cross_section_centroid
        cx, cy = c.x, c.y
        vol = vox.volume
    _near(ctx, a, ex.fA, "area", 4 * U * ex.fA + SAFETY * bd["A"], tag)
    _near(ctx, cx, ex.fcx, "centroid-r", 4 * U * abs(ex.fcx) + SAFETY * bd["cx"], tag)
    _near(ctx, cy, ex.fcy, "centroid-z", 4 * U * abs(ex.fcy) + SAFETY * bd["cy"], tag)
    _near(ctx, vol, ex.fV, "volume", 4 * U * abs(ex.fV) + SAFETY * bd["V"], tag)
    # Pappus on the reported numbers themselves (same arithmetic: two products)
    _near(ctx, vol, TWO_PI * cx * a, "volume=2pi*rc*A", 1e-14 * abs(vol), tag)
    return a, cx, cy, vol


# ------------------------------------------------------------------------------------------------ caller-side inputs
def make_input(verts, kind):
    """the vertex container handed to the constructor; returns (object, mutable ndarray or list to watch / modify)."""
    if kind == "tuples":
        return [tuple(p) for p in verts], None
    if kind == "point2d":
        return [Point2D(p[0], p[1]) for p in verts], None
    if kind == "ndarray-c":
        a = np.array(verts, dtype=np.float64)          # C-contiguous float64 (N, 2): can be adopted without a copy
        return a, a
    if kind == "ndarray-view":
        big = np.full((len(verts), 5), 7.25)
        big[:, 1::2] = np.array(verts, dtype=np.float64)
        v = big[:, 1::2]                               # strided, non-contiguous view
        return v, v
    lst = [list(p) for p in verts]
    return lst, lst


def _snapshot(obj):
    return obj.copy().tobytes() if isinstance(obj, np.ndarray) else repr(obj)


def check_caller_memory(ctx, watched, snap, tag):
    """(a) constructing a voxel must not modify the caller's container (e.g. reverse a counter-clockwise array in place)."""
    if watched is None:
        return
    now = _snapshot(watched)
    ctx.check(now == snap, "caller-array-modified",
              lambda: "the caller's vertex container was changed by the constructor: now %r %s"
                      % (watched.tolist() if isinstance(watched, np.ndarray) else watched, tag))


def disturb_caller_memory(watched, verts):
    """(b) the caller re-uses its container for the next cell: shift it in place (and reverse it)."""
    if watched is None:
        return
    w = max(p[0] for p in verts) - min(p[0] for p in verts)
    h = max(p[1] for p in verts) - min(p[1] for p in verts)
    if isinstance(watched, np.ndarray):
        watched[..., 0] += 1.5 * w + 0.25
        watched[..., 1] -= 0.75 * h + 0.125
        watched[...] = watched[..., ::-1, :].copy()
    else:
        for q in watched:
            q[0] += 1.5 * w + 0.25
            q[1] -= 0.75 * h + 0.125
        watched.reverse()


def _check_vertices(ctx, vox, verts, tag):
    """voxel.vertices is the polygon the voxel was built from: same cyclic sequence, either orientation, bit for bit."""
    with ctx.cut("vertices"):
        got = [(p.x, p.y) for p in vox.vertices]
    want = [(p[0], p[1]) for p in verts]
    n = len(want)
    rev = want[::-1]
    ok = len(got) == n and any(got == want[k:] + want[:k] or got == rev[k:] + rev[:k] for k in range(n))
    ctx.check(ok, "vertices", lambda: "voxel.vertices %r is not the polygon it was built from %r %s" % (got, want, tag))


def build_voxel(ctx, verts, prim, kind, ex, bd, tag):
    """construct from the given container kind, check the caller's memory, disturb it, return the voxel."""
    inp, watched = make_input(verts, kind)
    snap = _snapshot(watched) if watched is not None else None
    with ctx.cut("construct"):
        vox = AxisymmetricVoxel(inp, primitive_type=prim)
    check_caller_memory(ctx, watched, snap, tag)
    if watched is not None:
        first = _check_voxel_numbers(ctx, vox, ex, bd, tag)
        disturb_caller_memory(watched, verts)
        again = _check_voxel_numbers(ctx, vox, ex, bd, tag + " [after the caller shifted its vertex container in place]")
        ctx.check(first == again, "aliasing", lambda: "area/centroid/volume changed from %r to %r when the caller modified "
                                                      "its own vertex container %s" % (first, again, tag))
    _check_vertices(ctx, vox, verts, tag)
    return vox


# ------------------------------------------------------------------------------------------------ geometry
def run_geometry(case, ctx):
    verts = [[float(p[0]), float(p[1])] for p in case["verts"]]
    poly = dict(case, verts=verts)
    ex = Exact(verts)
    if not validate(poly, ex):
        ctx.label("invalid-case-skipped")
        return
    conc = _labels(ctx, poly, ex)
    bd = rounding_bounds(verts, ex)
    ctx.label("kappa<1e3" if bd["kappa"] < 1e3 else "kappa<1e6" if bd["kappa"] < 1e6 else "kappa>=1e6")
    n = ex.n
    got = []
    kind_in = case.get("input", "list")
    ctx.label("input=" + kind_in)
    for rev in (False, True):
        for k in range(n):
            v = variant(verts, k, rev)
            tag = "[order: rot=%d rev=%s]" % (k, rev)
            # the numbers do not depend on the primitive type: a mesh case builds two orders as mesh (one per
            # orientation), the remaining ones as csg (a mesh costs 1-5 ms, a csg voxel 0.1-0.6 ms)
            prim = case["prim"] if k == (n // 2 if rev else 0) else "csg"
            vox = build_voxel(ctx, v, prim, kind_in, ex, bd, tag)
            got.append(_check_voxel_numbers(ctx, vox, ex, bd, tag))
    g = np.array(got)
    for col, name, key, ref in ((0, "area", "A", ex.fA), (1, "centroid-r", "cx", ex.fcx), (2, "centroid-z", "cy", ex.fcy),
                                (3, "volume", "V", ex.fV)):
        spread = float(g[:, col].max() - g[:, col].min())
        tol = 2 * bd[key] + 1e-12 * abs(ref)
        ctx.check(spread <= tol, "invariance/" + name,
                  lambda: "%s differs by %.3g between vertex orders (tol %.3g): %r" % (name, spread, tol, sorted(set(g[:, col]))[:4]))
    # ---- scale covariance: voxel(k * vertices) has area k^2 A, centroid k c, volume k^3 V
    a0, cx0, cy0, v0 = got[0]
    for k in KS_POW2 + KS_DEC:
        kv = _scaled(verts, k)
        pow2 = k in KS_POW2
        tag = "[vertices scaled by %s%r]" % ("2^%d = " % round(math.log2(k)) if pow2 else "", k)
        with ctx.cut("construct"):
            vk = AxisymmetricVoxel(kv, primitive_type="csg")
        exk = Exact(kv)
        ak, cxk, cyk, volk = _check_voxel_numbers(ctx, vk, exk, rounding_bounds(kv, exk), tag)     # absolute, at that scale
        if pow2:      # every operation scales exactly by a power of two (no under/overflow in this range): bit-exact
            ctx.check((ak, cxk, cyk, volk) == (k * k * a0, k * cx0, k * cy0, k * k * k * v0), "scale-covariance",
                      lambda: "area/centroid/volume %r of the scaled polygon are not k^2, k, k, k^3 times %r %s"
                              % ((ak, cxk, cyk, volk), (a0, cx0, cy0, v0), tag))
        else:         # k * x is rounded (relative u per coordinate): one more term of the same a-priori bound
            f = 2 * SAFETY + 2
            _near(ctx, ak, k * k * a0, "scale-covariance/area", k * k * (f * bd["A"] + 8 * U * a0), tag)
            _near(ctx, cxk, k * cx0, "scale-covariance/centroid-r", k * (f * bd["cx"] + 8 * U * abs(cx0)), tag)
            _near(ctx, cyk, k * cy0, "scale-covariance/centroid-z", k * (f * bd["cy"] + 8 * U * abs(cy0)), tag)
            _near(ctx, volk, k * k * k * v0, "scale-covariance/volume", k * k * k * (f * bd["V"] + 8 * U * abs(v0)), tag)
    ctx.nt(conc or n >= 5)


# ------------------------------------------------------------------------------------------------ crash isolation
class _Isolator:
    """Runs run-bodies in one forked helper process per worker (started lazily, re-forked after a crash).

    emissivity_from_function indexes its triangle / vertex buffers with bounds checking switched off, so a wrong
    triangle index does not raise: it reads foreign memory and usually kills the interpreter.  Executing the body in a
    helper turns such a crash into an ordinary violation with a replayable case instead of a dead shard.  The helper
    reads one JSON request per line, answers with stage markers ("S ...") and one result line ("R ..."), and exits
    when its request pipe reaches EOF (parent finished or was killed)."""

    def __init__(self):
        self.pid = None
        self.bodies = {}

    def _start(self):
        c2p_r, c2p_w = os.pipe()
        p2c_r, p2c_w = os.pipe()
        pid = os.fork()
        if pid == 0:
            try:
                os.close(c2p_r)
                os.close(p2c_w)
                self._serve(os.fdopen(p2c_r, "r"), c2p_w)
            except BaseException:  # noqa
                pass
            finally:
                os._exit(0)
        os.close(c2p_w)
        os.close(p2c_r)
        self.pid, self.w, self.r = pid, os.fdopen(p2c_w, "w"), os.fdopen(c2p_r, "r", errors="replace")

    def _serve(self, fin, out_fd):
        for line in fin:
            req = json.loads(line)
            c2 = Ctx(None, req["sub"])
            c2.stage = lambda name: os.write(out_fd, ("S " + name.replace("\n", " ") + "\n").encode())
            out = {}
            try:
                self.bodies[req["body"]](req["case"], c2)
            except Violation as v:
                out["violation"] = [v.subcheck.split("/", 1)[1], v.message]
            except BaseException as e:  # noqa  harness bug inside the helper
                out["error"] = "%s: %s\n%s" % (type(e).__name__, e, traceback.format_exc()[-2000:])
            out["labels"], out["nt"] = c2.labels, c2.nontrivial
            os.write(out_fd, ("R " + json.dumps(out) + "\n").encode())

    def _reap(self):
        status = None
        for f in (getattr(self, "w", None), getattr(self, "r", None)):
            try:
                if f is not None:
                    f.close()
            except Exception:  # noqa
                pass
        if self.pid is not None:
            try:
                _, status = os.waitpid(self.pid, 0)
            except ChildProcessError:
                pass
        self.pid = self.w = self.r = None
        return status

    def call(self, body, sub, case):
        if self.pid is None:
            self._start()
        stages = []
        try:
            self.w.write(json.dumps({"body": body, "sub": sub, "case": case}) + "\n")
            self.w.flush()
            while True:
                line = self.r.readline()
                if not line:
                    break
                if line.startswith("S "):
                    stages.append(line[2:].rstrip("\n"))
                elif line.startswith("R "):
                    return json.loads(line[2:])
        except BrokenPipeError:
            pass
        status = self._reap()
        sig = os.WTERMSIG(status) if status is not None and os.WIFSIGNALED(status) else None
        return {"crash": sig, "status": status, "stage": stages[-1] if stages else "?"}

    def close(self):
        if self.pid is not None:
            self._reap()


_ISOLATOR = _Isolator()
atexit.register(_ISOLATOR.close)


def isolated(name, body):
    _ISOLATOR.bodies[name] = body

    def run(case, ctx):
        out = _ISOLATOR.call(name, ctx.subcheck, jsonable(case))
        if "crash" in out:
            if out["crash"] is None:
                raise RuntimeError("isolated helper vanished without a result (status %r)" % (out["status"],))
            try:
                signame = signal.Signals(out["crash"]).name
            except ValueError:
                signame = "signal %d" % out["crash"]
            ctx.fail("crash", "the interpreter was killed by %s during stage %r (a wrong triangle / vertex index is not "
                              "caught: bounds checks are off in emissivity_from_function)" % (signame, out["stage"]))
        ctx.label(*out["labels"])
        if "error" in out:
            raise RuntimeError("harness exception in isolated helper: " + out["error"])
        if "violation" in out:
            ctx.fail(out["violation"][0], out["violation"][1])
        ctx.nt(out["nt"])
    return run


def _stage(ctx, name):
    st_ = getattr(ctx, "stage", None)
    if st_ is not None:
        st_(name)



# ------------------------------------------------------------------------------------------------ sampling
def _classify(pts, tris, dtol):
    """index of the own triangle containing each point, -1 if none.  dtol = (er, ez): coordinate uncertainties along r
    and z.  Points are first assigned with strict float orientation tests (what the hit counts use: no tolerance band
    that could move mass between neighbouring triangles of a sliver); points left over (on an edge, or outside by
    rounding) are assigned with the per-axis uncertainty |dr| ez + |dz| er on the cross product."""
    er, ez = dtol
    x, y = pts[:, 0], pts[:, 1]
    idx = np.full(len(pts), -1, dtype=int)
    for tolerant in (True, False):           # strict pass last, so that it overrides the tolerant assignment
        for j in range(len(tris) - 1, -1, -1):
            (ax, ay), (bx, by), (cx, cy) = tris[j]
            ins = np.ones(len(pts), dtype=bool)
            for (px, py), (qx, qy) in (((ax, ay), (bx, by)), ((bx, by), (cx, cy)), ((cx, cy), (ax, ay))):
                tol = (abs(qx - px) * ez + abs(qy - py) * er) if tolerant else 0.0
                ins &= ((qx - px) * (y - py) - (qy - py) * (x - px)) >= -tol
            idx[ins] = j
    return idx


def _sq_interval(lo, hi):
    return (0.0 if lo <= 0.0 <= hi else min(lo * lo, hi * hi)), max(lo * lo, hi * hi)


def _quad_range(q, box):
    """interval-arithmetic bound of the range of c x^2 + d x y + e y^2 over the box x1..x2, y1..y2 (term by term)."""
    x1, x2, y1, y2 = box
    c, d, e = q
    pr = [x1 * y1, x1 * y2, x2 * y1, x2 * y2]
    lo = hi = 0.0
    for k, (u, v) in ((c, _sq_interval(x1, x2)), (d, (min(pr), max(pr))), (e, _sq_interval(y1, y2))):
        lo += min(k * u, k * v)
        hi += max(k * u, k * v)
    return hi - lo


def run_sampling(case, ctx):
    poly = dict(case["poly"])
    poly["verts"] = [[float(p[0]), float(p[1])] for p in poly["verts"]]
    base = poly["verts"]
    ex = Exact(base)
    if not validate(poly, ex):
        ctx.label("invalid-case-skipped")
        return
    _labels(ctx, poly, ex)
    n, N = ex.n, int(case["n"])
    if poly["kind"] in LOOKALIKE:
        N = max(N, 10000)             # 2.5 % of the bounding box outside the polygon -> >= 250 stray points expected
    rot, rev = int(case["rot"]) % n, bool(case["rev"])
    verts = variant(base, rot, rev)
    if rev:
        ctx.label("reversed")
    if rot:
        ctx.label("rotated")
    if OOB_OPEN:
        ctx.label("excluded_known:offset>1e2-sizes")
    ctx.label("N=%d" % N)
    kind_in = poly.get("input", "list")
    ctx.label("input=" + kind_in)
    bd = rounding_bounds(base, ex)
    _stage(ctx, "construct")
    vox = build_voxel(ctx, verts, poly["prim"], kind_in, ex, bd, "[order: rot=%d rev=%s]" % (rot, rev))
    rs_seed(int(case["seed"]))
    _stage(ctx, "emissivity_from_function(constant, %d)" % N)

    # ---- constants: exact
    c = float(case["const"])
    fc = Fr(c)
    bit_exact = fc.denominator <= (1 << 20) and abs(c) <= 65536.0
    ctx.label("const-bit-exact" if bit_exact else "const-rounded")
    for how, fn in (("callable", lambda r, phi, z: c), ("Function3D", Constant3D(c))):
        with ctx.cut("emissivity(const)"):
            e = vox.emissivity_from_function(fn, N)
        if bit_exact:
            ctx.check(e == c, "constant", lambda: "constant %r sampled %d times (%s) gives %r" % (c, N, how, e))
        else:
            ctx.close(e, c, "constant", rtol=SAFETY * N * U, info="(%s, N=%d)" % (how, N))

    c0, a, b = [float(t) for t in case["lin"]]
    r1, r2 = min(p[0] for p in base), max(p[0] for p in base)
    z1, z2 = min(p[1] for p in base), max(p[1] for p in base)
    diam = math.hypot(r2 - r1, z2 - z1)
    maxabs = max(abs(r1), abs(r2), abs(z1), abs(z2))
    dtol = (1e-12 * max(abs(r1), abs(r2)), 1e-12 * max(abs(z1), abs(z2), z2 - z1))
    tris = own_triangles(poly)

    def recorded(vox, verts, rot, rev, N):
        """one recorded emissivity call on this voxel: return value, inside-ness, area weighting, first moments."""
        # ---- recorded call with a linear field
        rec_r, rec_z, rec_v = [], [], []

        def f_rec(r, phi, z):
            val = c0 + a * r + b * z
            rec_r.append(r)
            rec_z.append(z)
            rec_v.append(val)
            return val
        _stage(ctx, "emissivity_from_function(linear callable, %d)" % N)
        with ctx.cut("emissivity(linear callable)"):
            e_lin = vox.emissivity_from_function(f_rec, N)
        ctx.check(len(rec_v) == N, "sample-count", lambda: "grid_samples=%d but the function was evaluated %d times" % (N, len(rec_v)))
        acc = 0.0
        for val in rec_v:
            acc += val
        vmax = max(abs(t) for t in rec_v)
        ctx.close(e_lin, acc / N, "return-vs-samples", rtol=1e-12, scale=max(vmax, 1e-300))

        pts = np.column_stack([np.array(rec_r), np.array(rec_z)])

        # inside the polygon, and multinomial counts over the independent triangulation
        idx = _classify(pts, tris, dtol)
        n_out = int(np.sum(idx < 0))
        if n_out:
            k = int(np.argmax(idx < 0))
            ctx.fail("inside", "%d of %d sample points lie outside the cross-section, e.g. sample %d at (r=%r, z=%r); polygon %r"
                     % (n_out, N, k, rec_r[k], rec_z[k], verts))
        counts = np.bincount(idx, minlength=len(tris))
        for j, t in enumerate(tris):
            p, sgn = ex.tri_fraction(*t)
            p = float(p)
            tol = bernstein(N, math.sqrt(p * (1.0 - p)), 1.0) * (1 + 1e-9) + 1e-9
            frac = counts[j] / N
            ctx.check(abs(frac - p) <= tol, "area-weighting",
                      lambda: "own triangle %d %r holds %.6f of the area but received %d/%d = %.6f of the samples (tol %.6f); "
                              "order rot=%d rev=%s" % (j, t, p, counts[j], N, frac, tol, rot, rev))

        # first moments: mean r, mean z -> centroid (every linear field follows)
        for name, col, mu, var, R in (("r", 0, ex.fcx, ex.var_x, r2 - r1), ("z", 1, ex.fcy, ex.var_y, z2 - z1)):
            m = float(pts[:, col].mean())
            tol = bernstein(N, math.sqrt(var), R) * (1 + 1e-9) + 1e-12 * (abs(mu) + R)
            ctx.check(abs(m - mu) <= tol, "mean-" + name,
                      lambda: "mean %s of %d samples = %r, centroid %r, |diff| %.4g > %.4g (sigma %.4g)"
                              % (name, N, m, mu, abs(m - mu), tol, math.sqrt(var)))
        R_lin = abs(a) * (r2 - r1) + abs(b) * (z2 - z1)
        mu_lin = c0 + a * ex.fcx + b * ex.fcy
        scale_lin = abs(c0) + abs(a) * maxabs + abs(b) * maxabs
        tol_lin = bernstein(N, lin_sd(a, b, ex), R_lin) * (1 + 1e-9) + 2 * (N + 8) * U * scale_lin
        ctx.check(abs(e_lin - mu_lin) <= tol_lin, "linear",
                  lambda: "linear field %r: sampled mean %r, f(centroid) %r, |diff| %.4g > %.4g" % (case["lin"], e_lin, mu_lin, abs(e_lin - mu_lin), tol_lin))

        return mu_lin, tol_lin

    mu_lin, tol_lin = recorded(vox, verts, rot, rev, N)
    if poly["kind"] in LOOKALIKE:
        # a shortcut keyed on the *stored* first edge / diagonals only shows for some starting vertices: sample every
        # one of the 2n vertex orders of these look-alike quadrilaterals
        ctx.label("all-orders")
        for rev2 in (False, True):
            for k2 in range(n):
                if (k2, rev2) == (rot, rev):
                    continue
                v2 = variant(base, k2, rev2)
                tag2 = "[order: rot=%d rev=%s]" % (k2, rev2)
                _stage(ctx, "construct + emissivity_from_function " + tag2)
                vox2 = build_voxel(ctx, v2, "csg", kind_in, ex, bd, tag2)
                recorded(vox2, v2, k2, rev2, 4000)   # >= 100 stray points expected at 5 % taper

    # ---- Function3D objects (no Python callback): linear and quadratic
    X, Z = Arg3D("x"), Arg3D("z")
    _stage(ctx, "emissivity_from_function(Function3D, %d)" % N)
    with ctx.cut("emissivity(linear Function3D)"):
        e3 = vox.emissivity_from_function(c0 + a * X + b * Z, N)
    ctx.check(abs(e3 - mu_lin) <= tol_lin, "linear",
              lambda: "linear Function3D %r: sampled mean %r, f(centroid) %r, |diff| %.4g > %.4g" % (case["lin"], e3, mu_lin, abs(e3 - mu_lin), tol_lin))
    qc, qd, qe = [float(t) for t in case["quad"]]
    # centred quadratic: c (r-rc)^2 + d (r-rc)(z-zc) + e (z-zc)^2 keeps the range bound tight at any offset
    rc, zc = ex.fcx, ex.fcy
    with ctx.cut("emissivity(quadratic Function3D)"):
        eq = vox.emissivity_from_function(c0 + qc * (X - rc) * (X - rc) + qd * (X - rc) * (Z - zc) + qe * (Z - zc) * (Z - zc), N)
    frc, fzc = Fr(rc), Fr(zc)
    mxx = ex.Exx - 2 * frc * ex.cx + frc * frc
    mzz = ex.Eyy - 2 * fzc * ex.cy + fzc * fzc
    mxz = ex.Exy - frc * ex.cy - fzc * ex.cx + frc * fzc
    mu_q = c0 + float(Fr(qc) * mxx + Fr(qd) * mxz + Fr(qe) * mzz)
    Rq = _quad_range([qc, qd, qe], (r1 - rc, r2 - rc, z1 - zc, z2 - zc))
    tolq = bernstein(N, Rq / 2.0, Rq) * (1 + 1e-9) + 1e-9 * (abs(c0) + Rq) + 1e-12 * abs(c0)
    ctx.check(abs(eq - mu_q) <= tolq, "quadratic",
              lambda: "centred quadratic %r + %r: sampled mean %r, exact area-mean %r, |diff| %.4g > %.4g" % (c0, case["quad"], eq, mu_q, abs(eq - mu_q), tolq))

    # ---- non-trivial?
    ra = raysect_triangle_areas(verts)
    unequal = len(ra) >= 2 and max(ra) > 1.1 * min(ra)
    if unequal:
        ctx.label("unequal-triangles")
    nt = n >= 4 and (rot != 0 or rev) and unequal
    if nt:
        ctx.label("nt")
    ctx.nt(nt)


# ------------------------------------------------------------------------------------------------ grid
def run_grid(case, ctx):
    cells = [[[float(p[0]), float(p[1])] for p in cell] for cell in case["cells"]]
    exs = [Exact(c) for c in cells]
    if not cells or any(e.degenerate for e in exs) or any(min(p[0] for p in c) < 0 for c in cells):
        ctx.label("invalid-case-skipped")
        return
    m = len(cells)
    ctx.label("cells=%d" % m, "prim=" + case["prim"])
    if m >= 2:
        ctx.label("cells>=2")
    bds = [rounding_bounds(c, e) for c, e in zip(cells, exs)]
    ctor = case.get("ctor") or {"active": "all", "world": False, "transform": False}
    ops = case.get("ops") or []
    active = ctor["active"] if ctor["active"] == "all" else int(ctor["active"]) % m
    ctx.label("ctor-active=" + ("all" if active == "all" else "int"))
    kw = {}
    if ctor.get("world"):
        kw["parent"] = World()
        ctx.label("ctor-parent=world")
    if ctor.get("transform"):
        kw["transform"] = translate(0.25, 0.0, 1.5)
        ctx.label("ctor-transform")
    # the container the caller hands over: lists, Point2D lists, one C-contiguous float64 array per cell, or a single
    # (m, n, 2) array whose rows are handed to the voxels as C-contiguous (n, 2) views (cells with equal vertex counts)
    kind_in = case.get("input", "list")
    if kind_in == "ndarray-3d" and len(set(len(c) for c in cells)) != 1:
        kind_in = "ndarray-c"
    ctx.label("input=" + kind_in)
    if kind_in == "ndarray-3d":
        coords = np.array(cells, dtype=np.float64)
        watched = [coords]
    elif kind_in == "ndarray-c":
        coords = [np.array(c, dtype=np.float64) for c in cells]
        watched = coords
    elif kind_in == "point2d":
        coords = [[Point2D(p[0], p[1]) for p in c] for c in cells]
        watched = []
    else:
        coords = [[list(p) for p in c] for c in cells]
        watched = coords
    snaps = [_snapshot(w) for w in watched]
    _stage(ctx, "construct grid")
    with ctx.cut("construct"):
        grid = ToroidalVoxelGrid(coords, primitive_type=case["prim"], active=active, **kw)
    for wi, (w, sn) in enumerate(zip(watched, snaps)):
        check_caller_memory(ctx, w, sn, "[vertex container %d handed to ToroidalVoxelGrid]" % wi)
    for w in watched:                 # the caller re-uses / shifts its arrays; every later state check re-reads the voxels
        disturb_caller_memory(w, [p for c in cells for p in c])
    with ctx.cut("getitem"):
        voxels = [grid[i] for i in range(m)]
    worlds = []                       # keep foreign parents alive
    state = {"proper_subset": False}

    def check_state(tag):
        """the statement does not depend on which voxels are active / parented: check everything in this state."""
        with ctx.cut("count"):
            cnt, ln = grid.count, len(grid)
        ctx.check(cnt == m and ln == m, "count", lambda: "grid of %d cells reports count=%r len=%r %s" % (m, cnt, ln, tag))
        with ctx.cut("iteration"):
            it = list(grid)
            gi = [grid[i] for i in range(m)]
        ctx.check(len(it) == m and all(x is y for x, y in zip(it, voxels)) and all(x is y for x, y in zip(gi, voxels)),
                  "voxel-list", lambda: "iteration / indexing no longer yield the %d voxels in construction order %s" % (m, tag))
        vols = [_check_voxel_numbers(ctx, voxels[i], exs[i], bds[i], "[voxel %d of %d] %s" % (i, m, tag))[3] for i in range(m)]
        for i in range(m):
            _check_vertices(ctx, voxels[i], cells[i], "[voxel %d of %d] %s" % (i, m, tag))
        with ctx.cut("total_volume"):
            tv = grid.total_volume
        acc = 0
        for v in vols:
            acc += v
        ctx.close(tv, acc, "total_volume=sum(reported)", rtol=1e-12, scale=max(abs(acc), 1e-300),
                  info="(%d voxels, volumes %r) %s" % (m, vols[:12], tag))
        ctx.close(tv, sum(e.fV for e in exs), "total_volume=sum(exact)", rtol=(m + 4) * U,
                  atol=SAFETY * sum(b["V"] for b in bds), info="(%d voxels) %s" % (m, tag))
        # classify the state (labels / non-trivial only)
        npar = sum(1 for v in voxels if v.parent is grid)
        ctx.label("state=" + ("all-parented" if npar == m else "none-parented" if npar == 0 else
                              "one-parented" if npar == 1 else "some-parented"))
        ctx.label("state=grid-in-world" if grid.parent is not None else "state=grid-detached")
        if any(v.parent is not None and v.parent is not grid for v in voxels):
            ctx.label("state=voxel-in-other-node")
        if npar < m:
            state["proper_subset"] = True
        return vols

    history = "after ToroidalVoxelGrid(active=%r%s%s)" % (active, ", parent=World()" if "parent" in kw else "",
                                                         ", transform=..." if "transform" in kw else "")
    vols = check_state("[" + history + "]")
    for name, arg in ops:
        ctx.label("op=" + name)
        _stage(ctx, "grid op %s %r" % (name, arg))
        if name == "set_active_all":
            with ctx.cut("set_active"):
                grid.set_active("all")
            desc = "set_active('all')"
        elif name == "set_active":
            i = int(arg) % m
            with ctx.cut("set_active"):
                grid.set_active(i)
            desc = "set_active(%d)" % i
        elif name == "set_active_rejected":
            bad = m + 2 if arg == "past-end" else arg
            try:                      # whether and what it raises is not part of C17; the state must stay consistent
                grid.set_active(bad)
            except Exception:  # noqa
                pass
            desc = "set_active(%r) [invalid]" % (bad,)
        elif name == "unparent_all":
            with ctx.cut("unparent_all_voxels"):
                grid.unparent_all_voxels()
            desc = "unparent_all_voxels()"
        elif name == "parent_all":
            with ctx.cut("parent_all_voxels"):
                grid.parent_all_voxels()
            desc = "parent_all_voxels()"
        elif name == "grid_parent":
            with ctx.cut("grid.parent"):
                if arg == "world":
                    worlds.append(World())
                    grid.parent = worlds[-1]
                else:
                    grid.parent = None
            desc = "grid.parent = %s" % ("World()" if arg == "world" else "None")
        elif name == "voxel_parent":
            i = int(arg[0]) % m
            with ctx.cut("voxel.parent"):
                if arg[1] == "world":
                    worlds.append(World())
                    voxels[i].parent = worlds[-1]
                else:
                    voxels[i].parent = grid if arg[1] == "grid" else None
            desc = "grid[%d].parent = %s" % (i, {"world": "World()", "grid": "grid", "none": "None"}[arg[1]])
        else:
            ctx.label("unknown-op-skipped")
            continue
        history += "; " + desc
        vols = check_state("[" + history + "]")
    # emissivities: constants exact, linear field within the bound for every voxel
    N = int(case["n"])
    rs_seed(int(case["seed"]))
    c = float(case["const"])
    _stage(ctx, "emissivities_from_function(constant, %d)" % N)
    with ctx.cut("emissivities(const)"):
        ec = np.asarray(grid.emissivities_from_function(lambda r, phi, z: c, N), dtype=float)
    ctx.check(ec.shape == (m,), "emissivities-shape", "shape %r for %d voxels" % (ec.shape, m))
    if Fr(c).denominator <= (1 << 20) and abs(c) <= 65536.0:
        ctx.check(bool(np.all(ec == c)), "constant", lambda: "constant %r gives %r" % (c, ec.tolist()))
    else:
        ctx.close(ec, np.full(m, c), "constant", rtol=SAFETY * max(N, 2) * U)
    c0, a, b = [float(t) for t in case["lin"]]
    X, Z = Arg3D("x"), Arg3D("z")
    with ctx.cut("emissivities(linear)"):
        el = np.asarray(grid.emissivities_from_function(c0 + a * X + b * Z, N), dtype=float)
    for i in range(m):
        e, cell = exs[i], cells[i]
        r1, r2 = min(p[0] for p in cell), max(p[0] for p in cell)
        z1, z2 = min(p[1] for p in cell), max(p[1] for p in cell)
        R = abs(a) * (r2 - r1) + abs(b) * (z2 - z1)
        mu = c0 + a * e.fcx + b * e.fcy
        tol = bernstein(N, lin_sd(a, b, e), R) * (1 + 1e-9) + 2 * (N + 8) * U * (abs(c0) + (abs(a) + abs(b)) * max(abs(r1), abs(r2), abs(z1), abs(z2)))
        ctx.check(abs(el[i] - mu) <= tol, "linear",
                  lambda: "voxel %d: linear field %r sampled mean %r, f(centroid) %r, |diff| %.4g > %.4g" % (i, case["lin"], el[i], mu, abs(el[i] - mu), tol))
    # ---- scale covariance of the grid: total_volume(k * cells) = k^3 total_volume
    with ctx.cut("total_volume"):
        tv0 = grid.total_volume
    for k in case.get("k") or []:
        k = float(k)
        pow2 = k in KS_POW2
        kcells = [_scaled(c, k) for c in cells]
        tag = "[grid scaled by %r]" % k
        _stage(ctx, "construct scaled grid")
        with ctx.cut("construct"):
            g2 = ToroidalVoxelGrid(kcells, primitive_type="csg")
        exk = [Exact(c) for c in kcells]
        bdk = [rounding_bounds(c, e) for c, e in zip(kcells, exk)]
        for i in range(m):
            _check_voxel_numbers(ctx, g2[i], exk[i], bdk[i], "[voxel %d of %d] %s" % (i, m, tag))
        with ctx.cut("total_volume"):
            tvk = g2.total_volume
        ctx.close(tvk, sum(e.fV for e in exk), "total_volume=sum(exact)", rtol=(m + 4) * U,
                  atol=SAFETY * sum(b["V"] for b in bdk), info="(%d voxels) %s" % (m, tag))
        if pow2:
            ctx.check(tvk == k * k * k * tv0, "scale-covariance/total_volume",
                      lambda: "total_volume %r of the scaled grid is not k^3 = %r times %r %s" % (tvk, k ** 3, tv0, tag))
        else:
            _near(ctx, tvk, k ** 3 * tv0, "scale-covariance/total_volume",
                  k ** 3 * ((2 * SAFETY + 2) * sum(b["V"] for b in bds) + (m + 8) * U * abs(tv0)), tag)
    for i in range(m):
        _scale_labels(ctx, cells[i], exs[i].fA)
    distinct = len(set(round(v / max(vols), 9) for v in vols)) >= 2 if max(vols) > 0 else False
    nt = m >= 2 and distinct and state["proper_subset"]
    if nt:
        ctx.label("nt")
    ctx.nt(nt)


# ------------------------------------------------------------------------------------------------ small sample counts
# The estimator must be unbiased at EVERY grid_samples, also the default (10) and 1, 2, 3: M independent calls are pooled.
# Under the property every one of the M*n sample points is an independent uniform draw over the cross-section, so the
# pooled points obey the same non-asymptotic Bernstein bounds as one big call (false-alarm probability <= 2e-9 per test,
# the two-sided 6 sigma level); a selection rule that is only right "on average over n" (stratified / fixed counts per
# triangle) shifts whole triangle shares by up to 1/n and does not average out over calls.
SMALL_N = ["default", "default", 1, 2, 3, 5, 7, 10]


def smalln_strategy():
    return st.fixed_dictionaries({
        "poly": poly_strategy(SAMPLING_GMAX, ["rect", "convex", "star", "star", "tmpl", "tmpl", "trap", "nearrect", "kite"]),
        "orders": st.lists(st.tuples(st.integers(0, 11), st.booleans()).map(list), min_size=1, max_size=3),
        "entry": st.sampled_from(["voxel", "voxel", "grid"]),
        "n": st.sampled_from(SMALL_N),
        "seed": st.integers(1, 2 ** 31 - 1),
        "lin": st.tuples(st.floats(-100.0, 100.0), _coef, _coef).map(list),
    })


def uniformity_checks(ctx, pts, ex, tris, box, tag):
    """pooled sample points (N x 2) against the exact polygon: inside, area shares of the own triangulation, first
    moments (f = r, z) and centred second moments (f = r^2, r z, z^2 given the first moments)."""
    N = len(pts)
    r1, r2, z1, z2 = box
    dtol = (1e-12 * max(abs(r1), abs(r2)), 1e-12 * max(abs(z1), abs(z2), z2 - z1))
    idx = _classify(pts, tris, dtol)
    n_out = int(np.sum(idx < 0))
    if n_out:
        k = int(np.argmax(idx < 0))
        ctx.fail("inside", "%d of %d sample points lie outside the cross-section, e.g. (r=%r, z=%r) %s"
                 % (n_out, N, pts[k, 0], pts[k, 1], tag))
    counts = np.bincount(idx, minlength=len(tris))
    for j, t in enumerate(tris):
        p = float(ex.tri_fraction(*t)[0])
        tol = bernstein(N, math.sqrt(p * (1.0 - p)), 1.0) * (1 + 1e-9) + 1e-9
        frac = counts[j] / N
        ctx.check(abs(frac - p) <= tol, "area-weighting",
                  lambda: "own triangle %d %r holds %.6f of the area but received %d/%d = %.6f of the pooled samples "
                          "(tol %.6f) %s" % (j, t, p, counts[j], N, frac, tol, tag))
    for name, col, mu, var, R in (("r", 0, ex.fcx, ex.var_x, r2 - r1), ("z", 1, ex.fcy, ex.var_y, z2 - z1)):
        m = float(pts[:, col].mean())
        tol = bernstein(N, math.sqrt(var), R) * (1 + 1e-9) + 1e-12 * (abs(mu) + R)
        ctx.check(abs(m - mu) <= tol, "mean-" + name,
                  lambda: "f = %s: mean over %d pooled samples %r, exact area-mean %r, |diff| %.4g > %.4g (sigma %.4g) %s"
                          % (name, N, m, mu, abs(m - mu), tol, math.sqrt(var), tag))
    rc, zc = ex.fcx, ex.fcy
    frc, fzc = Fr(rc), Fr(zc)
    dr, dz = pts[:, 0] - rc, pts[:, 1] - zc
    for name, vals, mu, q in (("r^2", dr * dr, ex.Exx - 2 * frc * ex.cx + frc * frc, [1.0, 0.0, 0.0]),
                              ("r*z", dr * dz, ex.Exy - frc * ex.cy - fzc * ex.cx + frc * fzc, [0.0, 1.0, 0.0]),
                              ("z^2", dz * dz, ex.Eyy - 2 * fzc * ex.cy + fzc * fzc, [0.0, 0.0, 1.0])):
        R = _quad_range(q, (r1 - rc, r2 - rc, z1 - zc, z2 - zc))
        mu = float(mu)
        m = float(vals.mean())
        tol = bernstein(N, R / 2.0, R) * (1 + 1e-9) + 1e-9 * R
        ctx.check(abs(m - mu) <= tol, "moment-" + name,
                  lambda: "f = %s (about the centroid): mean over %d pooled samples %r, exact area-mean %r, |diff| %.4g > %.4g %s"
                          % (name, N, m, mu, abs(m - mu), tol, tag))


def run_smalln(case, ctx):
    poly = dict(case["poly"])
    poly["verts"] = [[float(p[0]), float(p[1])] for p in poly["verts"]]
    base = poly["verts"]
    ex = Exact(base)
    if not validate(poly, ex):
        ctx.label("invalid-case-skipped")
        return
    _labels(ctx, poly, ex)
    n_v = ex.n
    n_arg = case["n"]
    n = 10 if n_arg == "default" else int(n_arg)
    ctx.label("samples=%s" % n_arg, "entry=" + case["entry"])
    orders = [[int(o[0]) % n_v, bool(o[1])] for o in case["orders"]]
    if case["entry"] == "voxel":
        orders = orders[:1]
    if any(o[1] for o in orders):
        ctx.label("reversed")
    if any(not o[1] for o in orders):
        ctx.label("forward")
    r1, r2 = min(p[0] for p in base), max(p[0] for p in base)
    z1, z2 = min(p[1] for p in base), max(p[1] for p in base)
    hgt = z2 - z1
    # the cells: the same outline in the drawn vertex orders, stacked in z (non-overlapping) for the grid entry point
    cells = []
    for j, (rot, rev) in enumerate(orders):
        dz = 1.5 * hgt * j
        pj = dict(poly, verts=[[p[0], p[1] + dz] for p in base],
                  kernel=None if poly["kernel"] is None else [poly["kernel"][0], poly["kernel"][1] + dz])
        exj = Exact(pj["verts"]) if j else ex
        if j and not validate(pj, exj):
            continue                      # the shift rounded a near-degenerate outline out of its class: leave it out
        cells.append((pj, exj, variant(pj["verts"], rot, rev), rot, rev))
    k = len(cells)
    total = 20000 if case["entry"] == "voxel" else 12000
    M = max(200, min(4000, -(-total // n)))
    ctx.label("M=%d" % M)
    c0, a, b = [float(t) for t in case["lin"]]
    rec = []

    def f(r, phi, z):
        rec.append((r, z))
        return c0 + a * r + b * z
    rs_seed(int(case["seed"]))
    _stage(ctx, "construct")
    if case["entry"] == "voxel":
        with ctx.cut("construct"):
            target = AxisymmetricVoxel(cells[0][2], primitive_type="csg")
    else:
        with ctx.cut("construct"):
            target = ToroidalVoxelGrid([c[2] for c in cells], primitive_type="csg")
    _stage(ctx, "%d calls with grid_samples=%s" % (M, n_arg))
    returned = []
    with ctx.cut("emissivity (small sample count)"):
        for _ in range(M):
            if case["entry"] == "voxel":
                e = target.emissivity_from_function(f) if n_arg == "default" else target.emissivity_from_function(f, n)
                returned.append([e])
            else:
                e = target.emissivities_from_function(f) if n_arg == "default" else target.emissivities_from_function(f, n)
                returned.append([float(t) for t in e])
    ctx.check(len(rec) == M * n * k, "sample-count",
              lambda: "%d calls with grid_samples=%s on %d voxel(s) evaluated the function %d times, expected %d"
                      % (M, n_arg, k, len(rec), M * n * k))
    P = np.array(rec, dtype=float).reshape(M, k, n, 2)
    ret = np.array(returned, dtype=float)
    ctx.check(ret.shape == (M, k), "emissivities-shape", "returned shape %r, expected %r" % (ret.shape, (M, k)))
    # every returned value is the mean of the n values the function returned in that call (sequential sum / n)
    vals = c0 + a * P[..., 0] + b * P[..., 1]
    acc = np.zeros((M, k))
    for i in range(n):
        acc = acc + vals[:, :, i]
    scale = abs(c0) + (abs(a) + abs(b)) * max(abs(r1), abs(r2), abs(z1), abs(z2 + 1.5 * hgt * k))
    ctx.close(ret, acc / n, "return-vs-samples", rtol=1e-12, scale=max(scale, 1e-300))
    unequal_any = False
    for j, (pj, exj, vj, rot, rev) in enumerate(cells):
        dz = 1.5 * hgt * j
        tag = "[%s, grid_samples=%s, %d calls pooled, voxel %d of %d, order rot=%d rev=%s]" % (case["entry"], n_arg, M, j, k, rot, rev)
        uniformity_checks(ctx, P[:, j].reshape(M * n, 2), exj, own_triangles(pj), (r1, r2, z1 + dz, z2 + dz), tag)
        # the estimator itself: mean of the M returned values against f(centroid) (linear field), sigma^2 = Var f / n
        mu = c0 + a * exj.fcx + b * exj.fcy
        R = abs(a) * (r2 - r1) + abs(b) * (z2 - z1)
        tol = bernstein(M, lin_sd(a, b, exj) / math.sqrt(n), R) * (1 + 1e-9) + 2 * (M + n + 8) * U * scale
        m = float(ret[:, j].mean())
        ctx.check(abs(m - mu) <= tol, "estimator-mean",
                  lambda: "mean of %d returned values %r, exact area-mean %r, |diff| %.4g > %.4g %s" % (M, m, mu, abs(m - mu), tol, tag))
        ra = raysect_triangle_areas(vj)
        if len(ra) >= 2 and max(ra) > 1.1 * min(ra):
            unequal_any = True
    if unequal_any:
        ctx.label("unequal-triangles", "nt")
    ctx.nt(unequal_any)


SUBCHECKS = {
    "geometry": Given(geometry_strategy, run_geometry, quick=1400, thorough=30000),
    "sampling": Given(sampling_strategy, isolated("sampling", run_sampling), quick=1000, thorough=24000),
    "grid": Given(grid_strategy, isolated("grid", run_grid), quick=800, thorough=12000),
    "smalln": Given(smalln_strategy, isolated("smalln", run_smalln), quick=600, thorough=10000),
}
