"""C12 - EFITEquilibrium maps flux functions onto flux surfaces with an orthonormal flux basis (inputs, configurations).

Three sub-checks share one case layout {eq: equilibrium description, lat/pts: point set, ...}:

  scalar  map2d / map3d / psi_normalised       (composition, LCFS mask, clamp, axisymmetry, analytic psi_n)
  basis   b_field / toroidal / poloidal / normal  (orthonormality, n = p x t, p || B_pol, B.n = 0, B from the flux)
  vector  map_vector2d / map_vector3d           (components in the (t, p, n) basis, rotation with toroidal angle)

Equilibria are the bundled example and Generomak ones (as loaded by the package's own loaders, or rebuilt from the same
JSON with psi -> s*psi + c, which leaves psi_n unchanged and flips/scales the poloidal field) and synthetic ones:
psi = psi_0 + D*U(R,Z) with U a polynomial flux function (U = 0 on the axis, U = 1 on the LCFS):

  ellipse  U = ((R-R0)^2 + (Z-Z0)^2/kappa^2) / a^2
  solovev  U = ((R^2-R0^2)^2/(4 R0^2) + R^2 (Z-Z0)^2/(kappa^2 R0^2)) / a^2          (a Solov'ev solution; a < R0/2)

The LCFS polygon of a synthetic equilibrium is the U = 1 contour found by brentq along 64-256 rays from the axis.
"""
import json
import math
import os
from collections import OrderedDict

import numpy as np
from hypothesis import strategies as st
from numpy.polynomial import polynomial as NP
from scipy.optimize import brentq

from raysect.core import Point2D, Vector3D
from raysect.core.math.function.float import Interpolator1DArray, Arg1D
from raysect.core.math.polygon import triangulate2d

import cherab.tools.equilibrium as _cte
import cherab.generomak.equilibrium as _cge
from cherab.tools.equilibrium import EFITEquilibrium, example_equilibrium
from cherab.generomak.equilibrium import load_equilibrium
from cherab.core.math import VectorAxisymmetricMapper

from ..core import Given, canon
from ..findings import is_open

ID = "C12"
SHARDS = {"quick": 8, "thorough": 16}
FORMS = ["c", "c", "lists", "tuples-fortran", "strided-ints", "keywords"]

_NOEX = set(filter(None, os.environ.get("VERIF_NO_EXCLUDE", "").split(",")))
# PolygonMask2D (raysect Discrete2DMesh) reports interior points lying to rounding on an internal triangulation edge as
# outside (open finding of C13).  The LCFS mask inherits it; such points accept either value while the finding is open.
# Seen from C12 (finding C12-axis-outside-lcfs): the magnetic axis / any point on such an edge gets the outside value.
EXCLUDE_DIAG = ((is_open("C13-mask-hole-on-diagonal") or is_open("C12-axis-outside-lcfs"))
                and not ({"C13-mask-hole-on-diagonal", "C12-axis-outside-lcfs", "all"} & _NOEX))

# Outside the property as stated, hence never generated (observations, DESIGN section 5; VERIF_NO_EXCLUDE=... shows them):
#  - modifying a vector returned by eq.toroidal_vector / the outside value of map_vector2d in place (raysect's Constant2D hands
#    out its own Vector3D): the property says nothing about callers writing into returned objects;
#  - numeric profiles (`v_normal = 0.0` in two docstrings): the quantifier is "functions or 2xN arrays".
EXCLUDE_ALIAS = not ({"C12-constant-vector-aliased", "all"} & _NOEX)
EXCLUDE_FLOAT = not ({"C12-scalar-profile-rejected", "all"} & _NOEX)

SAFETY = 2.0          # factor on the a-priori interpolation bounds (guide: <= 3)
LEBESGUE = 1.25       # sup-norm of the 1-D finite-difference Hermite operator (interior 1.25 at t=1/2, edge cells <= 1.148)
EDGE_MARGIN = 1e-9    # * polygon size: points closer than this to a polygon edge accept either value
ALG = 1e-10           # algebraic identities
DEGENERATE = 1e-12    # * largest |B_pol| of the grid: below it the flux basis is undefined

RULE = ("Case = equilibrium + point set + profiles. Equilibria: bundled example / Generomak (package loaders, or the same JSON "
        "with psi -> s*psi + c, s in {1,-1,-0.5,2}) and synthetic polynomial flux functions (ellipse, Solov'ev; R0 0.8-8 m, "
        "a/R0 0.12-0.42, kappa 0.7-2.2, Z0 offset, uniform grids 20-60 x 20-60 with independent margins, optionally the axis on "
        "a grid node, psi_0 in [-5,3], D = psi_lcfs - psi_axis of either sign and 1e-2..10, psi_axis given off by 0..3 % of D so "
        "that the clamp at 0 is active, LCFS polygon by brentq along 64-256 rays, either orientation, limiter or None; one third of them "
        "up-down symmetric: Z0 = 0, z knots exactly antisymmetric (z_k = (2k-(nz-1))*h/2, nz odd in 3 of 4 so that z = 0 is a knot row), "
        "both signs of D; symmetric ellipses with R0 on an r knot get psi from the exact knot offsets, so psi is also mirror "
        "symmetric about r = R0 bit for bit). Points: a "
        "rank-1 lattice over the whole grid rectangle (40-160 points, offsets from the case), the magnetic axis, plus drawn points: uniform incl. the "
        "rectangle's edges and corners, polar around the magnetic axis (incl. the axis), beside LCFS polygon edges/vertices "
        "(+-1e-12..2e-2 of the size), grid nodes, points on the horizontal (z = +0.0 / -0.0 when Z0 = 0, r drawn) and vertical (r = R0, z drawn) line "
        "through the axis - every symmetric case carries 8 such midplane and 4 axis-column points. On z = +-0.0 of a symmetric "
        "equilibrium with odd nz B_r is exactly 0.0 for every r (verified numerically: 6090 of 6090 points; even nz: rounding noise, "
        "ordinary points), on r = R0 of a symmetric on-knot ellipse B_z is exactly 0.0 (231 of 231; not for Solov'ev, which is not "
        "mirror symmetric in R): there exactly one in-plane component vanishes, |B_pol| > 0, the basis is well defined and every "
        "relation is demanded unchanged (class one-zero, counted per point; the degenerate rule tests hypot(B_r, B_z) only); "
        "toroidal angles from the lattice and drawn (incl. 0, +-pi/2, pi); scalar adds 400 lattice + 100 "
        "near-axis points for psi_n >= 0 and the analytic flux. Profiles: Python "
        "callables (polynomial, Gaussian), raysect Function1D expressions, 2xN arrays as lists or ndarrays (knots 0..1 or 0..1.25, "
        "non-uniform; linear data -> exact; arbitrary data -> raysect's cubic Interpolator1DArray is the profile), outside values "
        "incl. 0, negative, 1e6; outside vectors incl. None. Inside is decided by my own crossing-number test on the polygon handed "
        "to the constructor AND psi_n <= 1. Non-trivial = the point set has decided points on both sides of the LCFS with an "
        "inside value different from the outside value, and (scalar, vector) at least one evaluated toroidal angle differs from 0, "
        "(basis: instead of the value condition) at least 10 non-degenerate points; distinct by case hash. Negative-sign equilibria, an active clamp, degenerate "
        "basis points, symmetric equilibria of either sign, one-zero points (B_r = 0 and B_z = 0 in basis, visible v_p/v_n in vector) "
        "and every equilibrium / profile class are required classes. "
        "Widening by kind - (a) forms: synthetic constructor arguments as C arrays, nested lists, tuples + Fortran-ordered arrays, strided "
        "views of NaN-filled buffers + Python ints for integral scalars, or all keywords (same values, all oracles unchanged); array "
        "profiles as list / tuple / ndarray / Fortran / strided / float32 / int (reference = the canonical float64 values); coordinates "
        "as Python floats, numpy scalars and Python ints; outside value positional / keyword / int / omitted; api: float32 psi (or "
        "float32 everything), int F/q profiles, nested tuples against a twin built from float64 arrays of the same values, bit for bit. "
        "(b) values: grids down to 5 knots and LCFS polygons of 3-32 vertices as minority classes, 2-knot F profile, 0-2 x-points, "
        "psi_0 in {0, 1, -3} and D = +-1 exactly, profiles that are exactly 0.0 / constant (functions returning float or int), array "
        "profiles with exact zeros on part of the knots and equal neighbours, polynomial coefficients 0 and 1, inside points with "
        "psi_n == 0.0 exactly (clamp bound), 3-D points given as (x, y) = (-r, +0.0), (-r, -0.0), (0, +-r), (-0.0, r), (r, -0.0), "
        "api: EFITLCFSMask on psi_n in {1.0, 1+ulp, 1-ulp, 0}, helper classes on fields with 0.0 / -0.0 / 1e+-100 components. "
        "(c) re-use: one equilibrium serves 1-3 mappings per case and (cache) several cases; at the end psi_normalised and the first "
        "mapped function are evaluated again and map2d is rebuilt - all bit identical; vectors handed out earlier are compared with "
        "their snapshots before anything is re-evaluated. (d) caller-owned ndarrays (constructor arguments, profile arrays, the outside "
        "Vector3D) must be bit-identical and writeable after the call and are then overwritten, so that any later use shows up. "
        "(e) api exercises every attribute and class of efit.pyx / example.py / the Generomak loader (list in REQUIRED_LABELS). "
        "interfere (state leaking between objects or calls): two equilibria A and B with independently generated parameters are "
        "constructed afresh in one case (never from the cache) and are alive together. Order 1: A's four mapped functions and all its "
        "direct functions are evaluated, B is built and checked with the full scalar / vector / basis oracles (part of B's points are "
        "A's coordinates; optionally the very same profile objects are mapped onto both), then A must answer bit for bit as before and "
        "pass its own oracles. Order 2: A is not evaluated until B has been built and used. REPEAT / X-Y-X on A: the same evaluation "
        "twice in a row, profile set Y mapped and evaluated on more (+150) and fewer (3) points, X mapped again from new profile "
        "objects and the very first functions asked again - all bit identical, Vector3D objects handed out earlier intact, caller "
        "arrays unchanged. Ten helper-class instances (two of each class) coexist and are evaluated alternately, compared with instances "
        "used alone. example_equilibrium(), load_equilibrium(), example_equilibrium() again. Non-trivial (interfere) = A and B differ.")
ASSUMPTIONS = [
    "inside the LCFS = inside the lcfs_polygon given to the constructor (crossing number, my own) AND psi_normalised <= 1 "
    "(the EFITLCFSMask definition quoted in the property's mechanism); points closer than 1e-9*size to a polygon edge accept either",
    "a 2xN array profile denotes raysect's Interpolator1DArray(x, y, 'cubic', 'none', 0) (what map2d's source and the IsoMapper2D "
    "docstring construct): Hermite cubic with finite-difference knot derivatives, which reproduces linear data exactly",
    "B_R = -(1/R) dpsi/dZ, B_Z = +(1/R) dpsi/dR (EFIT convention, the property's mechanism line); at interior grid nodes the "
    "derivatives are the central differences of the psi grid (numpy.gradient)",
    "raysect Interpolator2DArray 'cubic' = tensor product of 1-D Hermite cubics whose knot derivatives are central differences "
    "(one-sided first-order differences at the first/last knot) - read from raysect 0.8.1 interpolator2darray.pyx",
    "open finding C13-mask-hole-on-diagonal: points within 1e-9*size of an internal edge of raysect's triangulate2d(polygon) "
    "accept either value (labelled excluded_known)",
    "math.atan2 / sqrt / sin / cos of CPython are the libm functions the extension uses",
    "api: getters return what the constructor was given (docstring :ivar: list); psi_normalised = max(0, (psi - psi_axis)/(psi_lcfs - "
    "psi_axis)) with the object's own psi; F and q reproduce their samples on the knots; inside_limiter and psin_to_r are only "
    "exercised (value in {0, 1} / finite) - the statement says nothing about them",
    "open findings C12-constant-vector-aliased (the in-place modification of a returned vector) and C12-scalar-profile-rejected "
    "(numeric profiles) are excluded from generation while open; their probes are replayed on every run",
]
TOLERANCES = {
    "composition": "|map2d(p)(r,z) - p(eq.psi_normalised(r,z))| <= 1e-12*scale (scale = max|p| on [0,1] and |outside|): same "
                   "double operations on both sides; the outside value must come back bit-identical",
    "array profile, linear data": "1e-12*scale against c0 + c1*psi_n: the Hermite/finite-difference cubic reproduces linear data "
                                  "up to rounding on any knot set; arbitrary data: 1e-12*scale against raysect's interpolator",
    "map3d": "|map3d(x,y,z) - map2d(sqrt(x^2+y^2), z)| <= 1e-10*scale; a 1-ulp difference of the radius moves p(psi_n) by "
             "<= 1e-15*|p'|*|grad psi_n|*r; points with |psi_n - 1| <= 1e-12 or within the polygon edge margin accept either side",
    "analytic psi_n (synthetic)": "|psi_n - max(0,(U-eps)/(1-eps))| <= 2*E/(1-eps) + 1e-12*(1+|psi_0|/|D|), E = Ex + 1.25*Ez, "
                                  "E_d = h^3*M3/24 + h^4*M4/384 (+ h^2*M2/8 in the first/last cell of that direction), Mk = max over "
                                  "the grid rectangle of |d^k U/d d^k| (33x33 sample of the exact polynomial derivative). "
                                  "Derivation: Hermite cubic with exact slopes errs <= h^4 M4/384; the central-difference slope "
                                  "errs <= h^2 M3/6 (one-sided: h M2/2) and enters with weight h*(|h10|+|h11|) <= h/4; tensor "
                                  "product: f - IxIz f = (f - Ix f) + Ix(f - Iz f), |Ix| <= 1.25. NOT C*h^4*max|d4 psi| as the "
                                  "design guessed: the scheme is third order. Mapped values: tolerance max|p'| times that bound. "
                                  "Measured on the unchanged tree (65 Solov'ev cases): error/tolerance <= 0.19 in interior cells, "
                                  "<= 0.28 in edge cells; the tolerance itself is 2.5e-4 (median) .. 1.3e-3 in psi_n.",
    "analytic B_pol (synthetic)": "|B_pol - D*(-U_Z, U_R)/R| <= 2*hypot(dZ, dR)/R + 1e-12*Bscale, d = 1.5625*h^2*M3/3 "
                                  "(numpy.gradient node error, second-order one-sided at the edge) + the interpolation bound above "
                                  "applied to dpsi/dd; measured error/tolerance <= 0.26",
    "B at grid nodes": "1e-9*max|B_pol| of the grid: same central differences as numpy.gradient, interpolant evaluated on a knot",
    "basis identities": "1e-10 (unit length, dot products, n - p x t, p - B_pol/|B_pol|, B.n/|B|): a normalisation and a few "
                        "products, error ~1e-16 at any field magnitude. Points with |B_pol| < 1e-12*max|B_pol| of the grid are "
                        "labelled degenerate (the in-plane direction is rounding noise of the finite differences there, and the "
                        "code returns zero vectors when B_pol == 0): only 'zero or unit' is demanded of p and n, and of a mapped "
                        "velocity only the toroidal component; a ZeroDivisionError there (|B_pol|^2 underflows for 0 < |B_pol| < 1e-154, "
                        "raysect normalise()/set_length) is tolerated and labelled degenerate:zero-division. Points where exactly ONE "
                        "in-plane component is 0.0 are not degenerate (the rule looks at hypot(B_r, B_z))",
    "vector components": "1e-10*max(|v_t|,|v_p|,|v_n|) on each component of map_vector2d in my own basis (t = e_y, "
                         "p = B_pol/|B_pol|, n = p x t)",
    "psi vs psi_n": "|psi_n - max(0,(psi-psi_axis)/dpsi)| <= 1e-10*(max|psi grid| + |psi_axis|)/|dpsi| + 1e-12: the interpolant is linear in the "
                    "data, so normalising before or after interpolation differs by the rounding of the cubic coefficients (~50 ulp of max|psi|)",
    "forms / re-use / twins": "== (bit identical): the same values must take the same arithmetic path",
    "rotation": "|map_vector3d(x,y,z) - Rz(atan2(y,x)) map_vector2d(sqrt(x^2+y^2), z)| <= 1e-10*|v| (degrees round trip ~1e-15)",
}

_ONLY = set(filter(None, os.environ.get("VERIF_ONLY", "").split(",")))
REQUIRED_LABELS = [l for l in [
    "scalar:eq:example", "scalar:eq:generomak", "scalar:eq:synth:ellipse", "scalar:eq:synth:solovev",
    "scalar:sign:negative", "scalar:sign:positive", "scalar:clamp-active", "scalar:points:both-sides",
    "scalar:profile:callable", "scalar:profile:function1d", "scalar:profile:array-linear", "scalar:profile:array",
    "scalar:analytic", "scalar:phi!=0",
    "basis:eq:example", "basis:eq:generomak", "basis:eq:synth:ellipse", "basis:eq:synth:solovev",
    "basis:sign:negative", "basis:sign:positive", "basis:degenerate", "basis:nodes", "basis:analytic-field",
    "basis:symmetric:negative", "basis:symmetric:positive", "basis:one-zero:Br", "basis:one-zero:Bz",
    "vector:symmetric:negative", "vector:symmetric:positive", "vector:one-zero",
    "vector:eq:example", "vector:eq:generomak", "vector:eq:synth:ellipse", "vector:eq:synth:solovev",
    "vector:sign:negative", "vector:sign:positive", "vector:outside:none", "vector:outside:vector", "vector:phi!=0",
    # (a) forms
    "scalar:form:c", "scalar:form:lists", "scalar:form:tuples-fortran", "scalar:form:strided-ints", "scalar:form:keywords",
    "scalar:profile:array-form:list", "scalar:profile:array-form:tuple", "scalar:profile:array-form:ndarray",
    "scalar:profile:array-form:f-order", "scalar:profile:array-form:strided", "scalar:profile:array-form:f32",
    "scalar:profile:array-form:int", "scalar:coords:int", "scalar:outside:int", "scalar:outside:keyword", "scalar:outside:default",
    "api:twin:f32", "api:twin:f32-all", "api:twin:int-profiles", "api:twin:nested-tuples",
    # (b) magic values
    "scalar:profile:zero", "scalar:profile:const", "scalar:profile:array-zeros", "scalar:psi_n==0-inside",
    "scalar:grid:small", "scalar:polygon:small", "scalar:x-points", "scalar:phi:x<0,y=+-0",
    "vector:zero-component:vn", "vector:zero-component:vp", "vector:zero-component:vt", "vector:phi:x<0,y=+-0", "basis:phi:x<0,y=+-0",
    "api:mask:psi_n==1", "api:helper:one-zero", "api:helper:zero-field",
    # (c) re-use
    "scalar:reuse", "vector:reuse",
    # (e) entry points of the anchored files
    "scalar:entry:psi_normalised", "scalar:entry:map2d", "scalar:entry:map3d",
    "basis:entry:b_field", "basis:entry:toroidal_vector", "basis:entry:poloidal_vector", "basis:entry:surface_normal",
    "vector:entry:map_vector2d", "vector:entry:map_vector3d",
    "api:entry:EFITEquilibrium", "api:entry:attributes", "api:entry:psi", "api:entry:inside_lcfs", "api:entry:inside_limiter",
    "api:entry:inside_limiter:none", "api:entry:f_profile", "api:entry:q", "api:entry:psin_to_r", "api:entry:example_equilibrium",
    "api:entry:load_equilibrium", "api:entry:EFITLCFSMask", "api:entry:MagneticField", "api:entry:PoloidalFieldVector",
    "api:entry:FluxSurfaceNormal", "api:entry:FluxCoordToCartesian",
    # state leaking between objects / calls
    "interfere:interference:A-then-B", "interfere:interference:B-before-A-first-use", "interfere:shared-profile-object",
    "interfere:repeat", "interfere:x-y-x", "interfere:helpers-interleaved", "interfere:loaders-x-y-x", "interfere:caller-arrays",
] + ([] if EXCLUDE_FLOAT else ["vector:profile:float"]) + ([] if EXCLUDE_ALIAS else ["vector:mutate-returned", "basis:mutate-returned"])
 if not _ONLY or l.split(":")[0] in _ONLY]


# ================================================================================================ strategies
def _mix(lo, hi, specials):
    return st.one_of(st.floats(lo, hi), st.sampled_from(specials))


def _grid_n(draw):
    # DESIGN: 20-60; the smallest sizes the finite differences allow are kept as a minority class
    return draw(st.one_of(st.integers(20, 60), st.integers(20, 60), st.integers(20, 60), st.integers(5, 19)))


@st.composite
def eq_spec(draw, max_rays=256):
    k = draw(st.sampled_from(["example", "generomak", "synth", "synth", "synth", "synth", "synth", "synth"]))
    if k != "synth":
        return {"kind": k, "s": draw(st.sampled_from([1.0, 1.0, -1.0, -0.5, 2.0])), "c": draw(st.sampled_from([0.0, 0.0, 1.5, -2.0]))}
    r0 = draw(st.floats(0.8, 8.0))
    fam = draw(st.sampled_from(["ellipse", "solovev"]))
    # "sym": up-down symmetric (Z0 = 0, z knots exactly antisymmetric, odd nz three times out of four): B_r is exactly 0.0 on z = 0
    sym = draw(st.sampled_from([False, False, True]))
    nz = _grid_n(draw)
    margin = [draw(st.floats(0.15, 1.0)) for _ in range(4)]
    if sym:
        if draw(st.integers(0, 3)) != 0:
            nz += 1 - nz % 2
        margin[3] = margin[2]
        # ellipse with R0 on an r knot: psi is built from exact knot offsets, B_z is exactly 0.0 on r = R0
        on_node = draw(st.booleans()) if fam == "ellipse" else draw(st.sampled_from([False, False, False, True]))
    else:
        on_node = draw(st.sampled_from([False, False, False, True]))
    d = {"kind": "synth", "family": fam,
         "R0": r0, "a": r0 * draw(st.floats(0.12, 0.42)), "kappa": draw(st.floats(0.7, 2.2)),
         "z0": 0.0 if sym else draw(st.floats(-0.5, 0.5)),
         "nr": _grid_n(draw), "nz": nz, "margin": margin, "axis_on_node": on_node,
         "psi0": draw(st.sampled_from([0.0, 0.0, 1.0, -3.0])) + draw(st.sampled_from([0.0, 0.0, 1.0])) * draw(st.floats(-2.0, 2.0)),
         "D": draw(st.sampled_from([1.0, -1.0])) * draw(st.one_of(st.just(1.0), st.floats(-2.0, 1.0).map(lambda e: 10 ** e))),
         "eps": draw(st.sampled_from([0.0, 0.0, 1e-3, 0.01, 0.03])),
         "nrays": min(max_rays, draw(st.sampled_from([3, 4, 8, 16, 32, 64, 64, 64, 96, 96, 128, 128, 200, 256]))),
         "phase": draw(st.floats(0.0, 1.0)), "cw": draw(st.booleans()), "limiter": draw(st.booleans()),
         "f0": draw(st.floats(-8.0, 8.0)), "falpha": draw(st.floats(-0.3, 0.3)), "nf": draw(st.integers(2, 40)),
         # container / layout of the constructor arguments (value preserving), number of x-points / strike points
         "form": draw(st.sampled_from(FORMS)), "nxp": draw(st.integers(0, 2))}
    if sym:
        d["sym"] = True
    return d


# toroidal angle of a point: radians, or a code >= 10 for exact axis crossings given as (x, y) with signed zeros
PHI_CODES = {10: (-1.0, 0.0), 11: (-1.0, -0.0), 12: (0.0, 1.0), 13: (0.0, -1.0), 14: (-0.0, 1.0), 15: (1.0, -0.0)}
_PHI = [0.0, 0.0, math.pi / 2, -math.pi / 2, math.pi, -math.pi, 3.0, -2.0, 1e-9, 10.0, 11.0, 10.0, 11.0, 12.0, 13.0, 14.0, 15.0]


@st.composite
def point_spec(draw):
    t = draw(st.sampled_from(["u", "u", "ax", "lcfs", "lcfs", "node", "mid", "vline", "int"]))
    phi = draw(st.one_of(st.sampled_from(_PHI), st.floats(-math.pi, math.pi)))
    if t == "u":
        return ["u", draw(_mix(0.0, 1.0, [0.0, 1.0, 0.5])), draw(_mix(0.0, 1.0, [0.0, 1.0, 0.5])), phi]
    if t == "int":    # integer-valued coordinates inside the grid rectangle (if any): also handed over as Python ints
        return ["int", draw(st.floats(0.0, 1.0)), draw(st.floats(0.0, 1.0)), phi]
    if t == "mid":    # on the horizontal line through the axis (z = +0.0 / -0.0 for a symmetric equilibrium), r drawn
        return ["mid", draw(st.floats(0.0, 1.0)), draw(st.sampled_from([0.0, -0.0])), phi]
    if t == "vline":  # on the vertical line through the axis, z drawn
        return ["vline", draw(st.floats(0.0, 1.0)), 0.0, phi]
    if t == "ax":
        return ["ax", draw(_mix(0.0, 0.3, [0.0, 0.0, 1e-9, 1e-3])), draw(st.floats(0.0, 6.283)), phi]
    if t == "lcfs":   # vertex fraction, position along the edge, signed displacement along the direction from the axis
        return ["lcfs", draw(st.floats(0.0, 1.0)), draw(_mix(0.0, 1.0, [0.0, 0.5])),
                draw(st.sampled_from([-1.0, 1.0])) * draw(st.sampled_from([0.0, 1e-12, 1e-8, 1e-6, 1e-4, 1e-3, 1e-2, 2e-2])), phi]
    return ["node", draw(st.floats(0.0, 1.0)), draw(st.floats(0.0, 1.0)), phi]


@st.composite
def points_spec(draw, nmax=160):
    return {"lat": {"n": draw(st.integers(min(40, nmax), nmax)), "o": [draw(st.floats(0.0, 1.0)) for _ in range(3)]},
            "pts": draw(st.lists(point_spec(), min_size=4, max_size=16))}


def _knots(draw):
    n = draw(st.integers(2, 12))
    inc = [draw(st.floats(0.05, 1.0)) for _ in range(n - 1)]
    xmax = draw(st.sampled_from([1.0, 1.0, 1.25]))
    cum = np.cumsum(inc)
    return [0.0] + [float(c / cum[-1] * xmax) for c in cum]


ARRAY_FORMS = ["list", "tuple", "ndarray", "ndarray", "f-order", "strided", "f32", "int"]


@st.composite
def profile_spec(draw, allow_float=False):
    kinds = ["poly", "poly", "gauss", "f1d", "array_lin", "array", "array", "zero", "const"]
    if allow_float and not EXCLUDE_FLOAT:     # only where a docstring shows it: the normal component of map_vector2d/3d
        kinds += ["float", "float"]
    kind = draw(st.sampled_from(kinds))
    sc = draw(st.sampled_from([1.0, -1.0])) * draw(st.one_of(st.just(1.0), st.floats(-2.0, 6.0).map(lambda e: 10 ** e)))
    if kind in ("poly", "f1d"):
        return {"kind": kind, "c": [sc * draw(_mix(-1.0, 1.0, [0.0, 1.0])) for _ in range(3)]}
    if kind == "gauss":
        return {"kind": "gauss", "a": sc, "c": draw(st.floats(0.0, 1.2)), "w": draw(st.floats(0.1, 1.0)), "b": sc * draw(st.floats(-1.0, 1.0))}
    if kind == "zero":       # the documented "no velocity along the normal" case, as a function: exactly 0.0 everywhere
        return {"kind": "zero", "ret_int": draw(st.booleans())}
    if kind in ("const", "float"):
        return {"kind": kind, "v": draw(st.sampled_from([0.0, 1.0, -1.0, 0.01, 2.0])) * draw(st.sampled_from([1.0, 1.0, sc])),
                "ret_int": draw(st.booleans())}
    x = _knots(draw)
    form = draw(st.sampled_from(ARRAY_FORMS))
    if kind == "array_lin":
        return {"kind": "array_lin", "x": x, "c": [sc * draw(_mix(-1.0, 1.0, [0.0])), sc * draw(_mix(-1.0, 1.0, [0.0]))], "form": form}
    y = [sc * draw(st.floats(-1.0, 1.0)) for _ in x]
    # exact zeros on part of the knots, equal neighbouring values
    i0 = draw(st.integers(0, len(x)))
    i1 = draw(st.integers(i0, len(x)))
    if draw(st.booleans()):
        y[i0:i1] = [0.0] * (i1 - i0)
    if draw(st.booleans()) and len(x) > 2:
        j = draw(st.integers(1, len(x) - 1))
        y[j] = y[j - 1]
    return {"kind": "array", "x": x, "y": y, "form": form}


def _outside(draw):
    return draw(st.one_of(st.sampled_from([0.0, 0.0, -1.0, 1.0, 1e6, -7.5]), st.floats(-1e3, 1e3)))


@st.composite
def scalar_strategy(draw, eq=None, nmax=160):
    d = {"eq": eq if eq is not None else draw(eq_spec())}
    d.update(draw(points_spec(nmax=nmax)))
    d["profiles"] = [{"p": draw(profile_spec()), "out": _outside(draw), "default_out": draw(st.integers(0, 5)) == 0,
                      "out_form": draw(st.sampled_from(["float", "float", "int", "kw"]))}
                     for _ in range(draw(st.integers(1, 3)))]
    return d


@st.composite
def basis_strategy(draw, eq=None, nmax=160):
    d = {"eq": eq if eq is not None else draw(eq_spec())}
    d.update(draw(points_spec(nmax=nmax)))
    d["nodes"] = [[draw(st.floats(0.0, 1.0)), draw(st.floats(0.0, 1.0))] for _ in range(draw(st.integers(4, 24)))]
    d["mutate"] = False if EXCLUDE_ALIAS else draw(st.booleans())   # modify a returned toroidal vector in place, ask again
    return d


@st.composite
def vector_strategy(draw, eq=None, nmax=160):
    d = {"eq": eq if eq is not None else draw(eq_spec())}
    d.update(draw(points_spec(nmax=nmax)))
    d["vt"], d["vp"], d["vn"] = draw(profile_spec()), draw(profile_spec()), draw(profile_spec(allow_float=True))
    d["out"] = draw(st.one_of(st.none(), st.none(), st.lists(st.sampled_from([0.0, 1.0, -2.5, 1e4]), min_size=3, max_size=3),
                              st.lists(st.floats(-1e3, 1e3), min_size=3, max_size=3)))
    d["out_kw"] = draw(st.booleans())
    d["mutate"] = False if EXCLUDE_ALIAS else draw(st.booleans())   # modify a returned outside vector in place, ask again
    return d


_MAGIC = [0.0, -0.0, 1.0, -1.0, 0.5, 2.0, 1e-100, -1e-100, 1e100, 3.0, -4.0]


@st.composite
def api_strategy(draw):
    d = {"eq": draw(eq_spec(max_rays=96))}
    d.update(draw(points_spec(nmax=40)))
    d["twin"] = draw(st.sampled_from(["f32", "f32-all", "int-profiles", "nested-tuples"]))
    # helper classes built directly on Python callables: field vectors, psi_n values, derivative values
    d["fields"] = [[draw(st.sampled_from(_MAGIC)) for _ in range(3)] for _ in range(draw(st.integers(2, 6)))]
    d["psin"] = [draw(st.one_of(st.sampled_from([0.0, 1.0, 1.0000000000000002, 0.9999999999999999, 0.5, 2.0]), st.floats(0.0, 1.5)))
                 for _ in range(draw(st.integers(2, 5)))]
    d["comp"] = [draw(profile_spec()) for _ in range(3)]
    d["mf"] = [draw(st.floats(-5.0, 5.0)) for _ in range(6)]
    return d


@st.composite
def interfere_strategy(draw):
    """Two equilibria A and B alive at once (B's parameters are part of the case), each with its own scalar / basis / vector
    sub-case; a second profile set Y for the X-Y-X sequence on A."""
    d = {"order": draw(st.sampled_from([1, 1, 2])), "loaders": draw(st.integers(0, 3)) == 0, "share": draw(st.booleans())}
    for k in ("A", "B"):
        eq = draw(eq_spec(max_rays=96))
        d[k] = {"s": draw(scalar_strategy(eq=eq, nmax=60)), "b": draw(basis_strategy(eq=eq, nmax=40)), "v": draw(vector_strategy(eq=eq, nmax=40))}
    d["Y"] = {"p": draw(profile_spec()), "out": _outside(draw), "vt": draw(profile_spec()), "vp": draw(profile_spec()), "vn": draw(profile_spec())}
    d["fields"] = [[draw(st.sampled_from(_MAGIC)) for _ in range(3)] for _ in range(2)]
    d["psin"] = [draw(st.sampled_from([0.0, 0.5, 1.0, 1.5])), draw(st.floats(0.0, 1.5))]
    return d


# ================================================================================================ equilibria
class Bundle:
    pass


_CACHE = OrderedDict()
_CACHE_MAX = 6


def _load_json(kind):
    if kind == "example":
        with open(os.path.join(os.path.dirname(_cte.__file__), "example.json")) as fh:
            d = json.load(fh)
        return dict(r=d["r"], z=d["z"], psi=d["psi"], psi_axis=d["psi_axis"], psi_lcfs=d["psi_lcfs"], axis=d["axis_coord"],
                    xp=d["x_points"], sp=d["strike_points"], f=d["f_profile"], q=d["q_profile"], bvr=d["b_vacuum_radius"],
                    bvm=d["b_vacuum_magnitude"], lcfs=d["lcfs_polygon"], lim=d["limiter_polygon"], time=d["time"])
    with open(os.path.join(os.path.dirname(_cge.__file__), "data", "generomak_equilibrium.json")) as fh:
        d = json.load(fh)
    return dict(r=d["r"], z=d["z"], psi=d["psi_grid"], psi_axis=d["psi_axis"], psi_lcfs=d["psi_lcfs"], axis=d["magnetic_axis"],
                xp=d["x_points"], sp=d["strike_points"], f=d["f_profile"], q=d["q_profile"], bvr=d["b_vacuum_radius"],
                bvm=d["b_vacuum_magnitude"], lcfs=d["lcfs_polygon"], lim=d["limiter_polygon"], time=d["time"])


def _u_funcs(spec):
    """U, dU/dR, dU/dZ as stable closed forms and the coefficient array c[i][j] of R^i (Z-Z0)^j."""
    r0, a, k = spec["R0"], spec["a"], spec["kappa"]
    z0 = spec["z0"] * a
    c = np.zeros((5, 3))
    if spec["family"] == "ellipse":
        def u(r, z): return ((r - r0) ** 2 + (z - z0) ** 2 / (k * k)) / (a * a)
        def ur(r, z): return 2 * (r - r0) / (a * a) + 0 * z
        def uz(r, z): return 2 * (z - z0) / (k * k * a * a) + 0 * r
        c[0, 0], c[1, 0], c[2, 0], c[0, 2] = r0 * r0 / (a * a), -2 * r0 / (a * a), 1 / (a * a), 1 / (k * k * a * a)
    else:
        def u(r, z): return ((r * r - r0 * r0) ** 2 / (4 * r0 * r0) + r * r * (z - z0) ** 2 / (k * k * r0 * r0)) / (a * a)
        def ur(r, z): return ((r * r - r0 * r0) * r / (r0 * r0) + 2 * r * (z - z0) ** 2 / (k * k * r0 * r0)) / (a * a)
        def uz(r, z): return 2 * r * r * (z - z0) / (k * k * r0 * r0) / (a * a)
        c[4, 0], c[2, 0], c[0, 0], c[2, 2] = 1 / (4 * r0 * r0 * a * a), -1 / (2 * a * a), r0 * r0 / (4 * a * a), 1 / (k * k * r0 * r0 * a * a)
    return u, ur, uz, c, z0


def _synth_args(spec):
    """Everything handed to the constructor for a synthetic equilibrium, plus the analytic description."""
    r0, a, k = spec["R0"], spec["a"], spec["kappa"]
    u, ur, uz, c, z0 = _u_funcs(spec)
    n = spec["nrays"]
    th = (np.arange(n) + spec["phase"]) * (2 * math.pi / n)
    if spec["cw"]:
        th = th[::-1]
    verts = []
    for t in th:
        ct, s_ = math.cos(t), math.sin(t)
        f = lambda rho: u(r0 + rho * ct, z0 + rho * s_) - 1.0   # noqa: E731
        lo, hi = 0.0, 0.25 * a
        while f(hi) < 0.0:
            lo, hi = hi, hi * 1.3
        rho = brentq(f, lo, hi, xtol=1e-15, rtol=1e-15)
        verts.append((r0 + rho * ct, z0 + rho * s_))
    verts = np.array(verts)
    m = spec["margin"]
    ext_r = verts[:, 0].max() - verts[:, 0].min()
    ext_z = verts[:, 1].max() - verts[:, 1].min()
    rlo = max(verts[:, 0].min() - m[0] * 0.5 * ext_r, 0.08 * r0)
    rhi = verts[:, 0].max() + m[1] * 0.5 * ext_r
    zlo = verts[:, 1].min() - m[2] * 0.5 * ext_z
    zhi = verts[:, 1].max() + m[3] * 0.5 * ext_z
    nr, nz = spec["nr"], spec["nz"]
    sym = spec.get("sym", False)
    xoff = None
    if sym:
        zhi = max(abs(verts[:, 1].min()), abs(verts[:, 1].max())) + m[2] * 0.5 * ext_z
        zlo = -zhi
    if spec["axis_on_node"]:     # shift the grid (by less than one step) so that (R0, Z0) is a knot of both axes
        hr, hz = (rhi - rlo) / (nr - 1), (zhi - zlo) / (nz - 1)
        ir, iz = int(math.floor((r0 - rlo) / hr)), int(math.floor((z0 - zlo) / hz))
        r = r0 + (np.arange(nr) - ir) * hr          # r[ir] == R0 exactly, r[0] in [rlo, rlo + hr)
        z = z0 + (np.arange(nz) - iz) * hz
        xoff = (np.arange(nr) - ir) * hr            # exact knot offsets from R0 (antisymmetric about knot ir)
    else:
        r, z = np.linspace(rlo, rhi, nr), np.linspace(zlo, zhi, nz)
    if sym:                                         # z[k] == -z[nz-1-k] exactly; z = 0 is a knot row when nz is odd
        z = (2 * np.arange(nz) - (nz - 1)) * (zhi / (nz - 1))
    rr, zz = np.meshgrid(r, z, indexing="ij")
    psi0, dd, eps = spec["psi0"], spec["D"], spec["eps"]
    if sym and xoff is not None and spec["family"] == "ellipse":
        # psi from the exact offsets: psi[ir+k, j] == psi[ir-k, j] bit for bit (differs from u(r, z) by rounding only)
        psi = psi0 + dd * ((xoff[:, None] ** 2 + zz ** 2 / (k * k)) / (a * a))
    else:
        psi = psi0 + dd * u(rr, zz)
    nf = spec["nf"]
    xf = np.linspace(0.0, 1.0, nf)
    fprof = np.array([xf, spec["f0"] * (1 + spec["falpha"] * (1 - xf))])
    qprof = np.array([xf, 1.0 + 3.0 * xf * xf])
    lim = None
    if spec["limiter"]:
        lim = np.array([[r[0], r[-1], r[-1], r[0]], [z[0], z[0], z[-1], z[-1]]])
    nxp = spec.get("nxp", 0)
    xps = [Point2D(r0 - 0.3 * a * i, verts[:, 1].min() - 0.01 * a * (i + 1)) for i in range(nxp)]
    sps = [Point2D(r0 + 0.2 * a * i, z[0]) for i in range(nxp)]
    args = (r, z, psi, psi0 + eps * dd, psi0 + dd, Point2D(r0, z0), xps, sps, fprof, qprof, r0, spec["f0"] / r0,
            np.ascontiguousarray(verts.T), lim, 0.0)
    return args, dict(u=u, ur=ur, uz=uz, c=c, z0=z0, eps=eps, D=dd, psi0=psi0)


ARGN = ["r", "z", "psi_grid", "psi_axis", "psi_lcfs", "magnetic_axis", "x_points", "strike_points", "f_profile", "q_profile",
        "b_vacuum_radius", "b_vacuum_magnitude", "lcfs_polygon", "limiter_polygon", "time"]


def _strided(a):
    """Same values as a non-contiguous view (strides 2 / (2, 3) elements) of a NaN-filled array."""
    a = np.asarray(a, dtype=float)
    if a.ndim == 1:
        big = np.full(2 * len(a) + 1, np.nan)
        big[1::2] = a
        return big[1::2]
    big = np.full((2 * a.shape[0], 3 * a.shape[1]), np.nan)
    big[::2, 1::3] = a
    return big[::2, 1::3]


def _maybe_int(v):
    return int(v) if float(v).is_integer() else v


def apply_form(args, form):
    """Canonical constructor arguments -> (positional, keyword) arguments in another container / layout with the SAME values,
    plus the list of (ndarray handed over, canonical copy) pairs owned by the caller."""
    r, z, psi, pa, pl, ax, xp, sp, f, q, bvr, bvm, poly, lim, t = args
    arrs = [np.array(x) if x is not None else None for x in (r, z, psi, f, q, poly, lim)]
    if form == "lists":
        arrs = [x.tolist() if x is not None else None for x in arrs]
    elif form == "tuples-fortran":
        r_, z_, psi_, f_, q_, poly_, lim_ = arrs
        arrs = [tuple(r_.tolist()), tuple(z_.tolist()), np.asfortranarray(psi_), np.asfortranarray(f_), tuple(map(tuple, q_.tolist())),
                np.asfortranarray(poly_), np.asfortranarray(lim_) if lim_ is not None else None]
        xp, sp = tuple(xp), tuple(sp)
    elif form == "strided-ints":
        arrs = [_strided(x) if x is not None else None for x in arrs]
        pa, pl, bvr, bvm, t = _maybe_int(pa), _maybe_int(pl), _maybe_int(bvr), _maybe_int(bvm), _maybe_int(t)
    r_, z_, psi_, f_, q_, poly_, lim_ = arrs
    full = [r_, z_, psi_, pa, pl, ax, xp, sp, f_, q_, bvr, bvm, poly_, lim_, t]
    owned = [(x, np.array(c)) for x, c in zip(arrs, (r, z, psi, f, q, poly, lim)) if isinstance(x, np.ndarray)]
    if form == "keywords":
        return (), dict(zip(ARGN, full)), owned
    return tuple(full), {}, owned


def check_owned(ctx, owned, what):
    """Caller-owned arrays: bit-identical and still writeable after the call; then overwritten, so that any later use of
    them by the object under test shows up in the oracles."""
    for x, c in owned:
        ctx.check(x.flags.writeable and np.array_equal(x, c), "caller-data-unchanged",
                  lambda: "%s: an array handed over by the caller was modified (or made read-only) by the call" % what)
        x[...] = -3.0 * x - 7.0


def get_bundle(spec, ctx, fresh=False):
    """fresh=True: a new object is constructed now and not shared through the cache (interference sub-check)."""
    key = canon(spec)
    if key in _CACHE and not fresh:
        _CACHE.move_to_end(key)
        return _CACHE[key]
    b = Bundle()
    b.spec = spec
    b.synth = None
    if spec["kind"] == "synth":
        args, b.synth = _synth_args(spec)
        b.args = args
        pos, kw, owned = apply_form(args, spec.get("form", "c"))
        with ctx.cut("construct"):
            b.eq = EFITEquilibrium(*pos, **kw)
        check_owned(ctx, owned, "EFITEquilibrium(form=%s)" % spec.get("form", "c"))
        b.name = "synth:" + spec["family"]
    else:
        s, c = spec["s"], spec["c"]
        if s == 1.0 and c == 0.0:
            with ctx.cut("construct"):
                b.eq = example_equilibrium() if spec["kind"] == "example" else load_equilibrium()
        else:
            d = _load_json(spec["kind"])
            psi = s * np.array(d["psi"], dtype=float) + c
            with ctx.cut("construct"):
                b.eq = EFITEquilibrium(d["r"], d["z"], psi, s * d["psi_axis"] + c, s * d["psi_lcfs"] + c, Point2D(*d["axis"]),
                                       [Point2D(*p) for p in d["xp"]], [Point2D(*p) for p in d["sp"]], d["f"], d["q"],
                                       d["bvr"], d["bvm"], d["lcfs"], d["lim"], d["time"])
        b.name = spec["kind"]
    eq = b.eq
    if b.synth is not None:      # my own data, not what the object reports
        b.r, b.z, b.psi, b.poly = np.array(args[0]), np.array(args[1]), np.array(args[2]), np.ascontiguousarray(args[12].T)
        b.axis, b.dpsi = (args[5].x, args[5].y), args[4] - args[3]
    else:
        d = _load_json(spec["kind"])
        b.json = d
        b.r, b.z = np.array(d["r"], dtype=float), np.array(d["z"], dtype=float)
        b.psi = spec["s"] * np.array(d["psi"], dtype=float) + spec["c"]
        b.poly = np.ascontiguousarray(np.array(d["lcfs"], dtype=float).T)
        b.axis, b.dpsi = (d["axis"][0], d["axis"][1]), spec["s"] * (d["psi_lcfs"] - d["psi_axis"])
    b.size = float(max(np.ptp(b.poly[:, 0]), np.ptp(b.poly[:, 1])))
    b.minor = 0.5 * float(np.ptp(b.poly[:, 0]))
    # largest poloidal field of the grid (central differences): scale for the node check and the degeneracy threshold
    gr = (b.psi[2:, 1:-1] - b.psi[:-2, 1:-1]) / (b.r[2:] - b.r[:-2])[:, None]
    gz = (b.psi[1:-1, 2:] - b.psi[1:-1, :-2]) / (b.z[2:] - b.z[:-2])[None, :]
    b.bscale = float(np.max(np.hypot(gr, gz) / b.r[1:-1, None]))
    # internal triangulation edges (open finding C13-mask-hole-on-diagonal)
    b.diag = None
    if EXCLUDE_DIAG:
        tri = np.array(triangulate2d(np.ascontiguousarray(b.poly)))
        n = len(b.poly)
        e = set()
        for t in tri:
            for i, j in ((t[0], t[1]), (t[1], t[2]), (t[2], t[0])):
                i, j = int(min(i, j)), int(max(i, j))
                if j - i not in (1, n - 1):
                    e.add((i, j))
        if e:
            e = np.array(sorted(e))
            b.diag = (b.poly[e[:, 0]], b.poly[e[:, 1]])
    if fresh:
        return b
    _CACHE[key] = b
    while len(_CACHE) > _CACHE_MAX:
        _CACHE.popitem(last=False)
    return b


# ================================================================================================ geometry (own)
def _seg_dist(px, py, p0, p1):
    dx, dy = p1[:, 0] - p0[:, 0], p1[:, 1] - p0[:, 1]
    l2 = dx * dx + dy * dy
    t = ((px[:, None] - p0[:, 0]) * dx + (py[:, None] - p0[:, 1]) * dy) / np.where(l2 > 0, l2, 1.0)
    t = np.clip(t, 0.0, 1.0)
    return np.hypot(px[:, None] - (p0[:, 0] + t * dx), py[:, None] - (p0[:, 1] + t * dy)).min(axis=1)


def poly_test(px, py, v):
    """Crossing-number point-in-polygon test and distance to the nearest polygon edge."""
    x0, y0 = v[:, 0], v[:, 1]
    x1, y1 = np.roll(x0, -1), np.roll(y0, -1)
    pxx, pyy = px[:, None], py[:, None]
    straddle = (y0[None, :] > pyy) != (y1[None, :] > pyy)
    with np.errstate(divide="ignore", invalid="ignore"):
        xint = x0 + (pyy - y0) * (x1 - x0) / (y1 - y0)
    cross = straddle & (pxx < xint)
    inside = (cross.sum(axis=1) % 2) == 1
    return inside, _seg_dist(px, py, v, np.column_stack([x1, y1]))


_A1, _A2, _A3 = 0.7548776662466927, 0.5698402909980532, 0.6180339887498949     # rank-1 lattice generators


def make_points(case, b):
    """-> arrays r, z, phi, flag3d.  Deterministic arithmetic on the case only.
    Point kind "probe" (absolute r, z; never generated, used by the replay file of the open finding) is exempt from
    the known-finding exclusion; b.noex holds that flag for classify()."""
    rmin, rmax, zmin, zmax = b.r[0], b.r[-1], b.z[0], b.z[-1]
    sr, sz = rmax - rmin, zmax - zmin
    out = []
    n, o = case["lat"]["n"], case["lat"]["o"]
    for k in range(n):
        u, v, w = (o[0] + k * _A1) % 1.0, (o[1] + k * _A2) % 1.0, (o[2] + k * _A3) % 1.0
        out.append((rmin + u * sr, zmin + v * sz, 0.0 if k % 5 == 0 else float(10 + (k // 7) % 6) if k % 7 == 3 else (2 * w - 1) * math.pi))
    nv = len(b.poly)
    out.append((b.axis[0], b.axis[1], 1.0))          # the magnetic axis itself, in every case
    fixed = []
    if b.spec.get("sym", False):                     # symmetric class: midplane (z = +-0.0) and axis-column points in every case
        for k in range(8):
            u, v = (o[1] + k * _A1) % 1.0, (o[0] + k * _A2) % 1.0
            fixed.append((rmin + u * sr, 0.0 if k % 2 == 0 else -0.0, 0.0 if k == 0 else (2 * v - 1) * math.pi))
        for k in range(4):
            v = (o[2] + k * _A2) % 1.0
            fixed.append((b.axis[0], zmin + v * sz, (2 * v - 1) * math.pi))
    for p in case["pts"]:
        t, a1, a2 = p[0], p[1], p[2]
        if t == "u":
            out.append((rmin + a1 * sr, zmin + a2 * sz, p[3]))
        elif t in ("probe", "abs"):      # absolute coordinates ("abs": another equilibrium's points, clipped to this grid)
            out.append((a1, a2, p[3]))
        elif t == "mid":
            out.append((rmin + a1 * sr, b.axis[1] if b.axis[1] != 0.0 else a2, p[3]))
        elif t == "vline":
            out.append((b.axis[0], zmin + a1 * sz, p[3]))
        elif t == "int":     # nearest integers inside the rectangle, else the plain uniform point
            ri, zi = float(round(rmin + a1 * sr)), float(round(zmin + a2 * sz))
            out.append((ri if rmin <= ri <= rmax else rmin + a1 * sr, zi if zmin <= zi <= zmax else zmin + a2 * sz, p[3]))
        elif t == "ax":
            out.append((b.axis[0] + a1 * b.minor * math.cos(a2), b.axis[1] + a1 * b.minor * math.sin(a2), p[3]))
        elif t == "lcfs":
            i = min(int(a1 * nv), nv - 1)
            q0, q1 = b.poly[i], b.poly[(i + 1) % nv]
            qx, qy = q0[0] + a2 * (q1[0] - q0[0]), q0[1] + a2 * (q1[1] - q0[1])
            dx, dy = qx - b.axis[0], qy - b.axis[1]
            ln = math.hypot(dx, dy) or 1.0
            out.append((qx + p[3] * b.size * dx / ln, qy + p[3] * b.size * dy / ln, p[4]))
        else:
            i, j = int(round(a1 * (len(b.r) - 1))), int(round(a2 * (len(b.z) - 1)))
            out.append((b.r[i], b.z[j], p[3]))
    npts = len(case["pts"])
    out.extend(fixed)
    arr = np.array(out, dtype=float)
    noex = np.zeros(len(out), dtype=bool)
    noex[n + 1:n + 1 + npts] = [p[0] == "probe" for p in case["pts"]]
    b.noex = noex
    r = np.clip(arr[:, 0], rmin, rmax)
    z = np.clip(arr[:, 1], zmin, zmax)
    # map3d needs sqrt(x^2+y^2) to stay inside the grid: no 3-D evaluation within 1e-9 of the radial ends
    ok3 = (r > rmin + 1e-9 * sr) & (r < rmax - 1e-9 * sr)
    return r, z, arr[:, 2], ok3


def xy_of(r, phi):
    """(x, y) of a point at cylindrical radius r: phi in radians, or a PHI_CODES key (exact axis crossings, signed zeros)."""
    if phi >= 10.0:
        cx, cy = PHI_CODES[int(phi)]
        return cx * r, cy * r
    return r * math.cos(phi), r * math.sin(phi)


def coord_forms(ri, zi):
    """Other accepted forms of the same coordinates: numpy scalars, Python ints when integer valued."""
    forms = [(np.float64(ri), np.float64(zi))]
    if float(ri).is_integer() and float(zi).is_integer():
        forms.append((int(ri), int(zi)))
    return forms


def classify(b, r, z, psin):
    """My own inside decision.  -> inside (bool), amb (bool: accept either), excluded_known (bool)."""
    inpoly, dist = poly_test(r, z, b.poly)
    amb = dist < EDGE_MARGIN * b.size
    known = np.zeros(len(r), dtype=bool)
    if b.diag is not None:
        known = (_seg_dist(r, z, b.diag[0], b.diag[1]) < EDGE_MARGIN * b.size) & ~amb & ~b.noex
    return inpoly & (psin <= 1.0), inpoly, amb, known


# ================================================================================================ profiles
def _array_form(x, y, form):
    """2xN profile data in one of the accepted containers / dtypes.  -> (object, canonical float64 2xN array, owned ndarray or None)"""
    x, y = list(x), list(y)
    if form == "int":            # integer-valued samples as Python ints (knots stay floats); a true int ndarray for knots {0, 1}
        y = [int(round(max(-1e15, min(1e15, v)))) for v in y]
        obj = np.array([[0, 1], y], dtype=int) if x == [0.0, 1.0] else [x, y]
    elif form == "f32":
        obj = np.array([x, y], dtype=np.float32)
    elif form == "tuple":
        obj = (tuple(x), tuple(y))
    elif form == "list":
        obj = [x, y]
    elif form == "f-order":
        obj = np.asfortranarray(np.array([x, y]))
    elif form == "strided":
        obj = _strided(np.array([x, y]))
    else:
        obj = np.array([x, y])
    can = np.array(obj, dtype=np.float64)        # the canonical float64 form of the same values
    return obj, can, (obj if isinstance(obj, np.ndarray) else None)


def build_profile(spec):
    """-> (object handed to the code, reference callable, max|p'| on [0,1.01] or None, scale, class label,
           (caller-owned ndarray, canonical copy) or None)"""
    k = spec["kind"]
    xs = np.linspace(0.0, 1.0, 101)
    owned = None
    if k in ("poly", "f1d"):
        c0, c1, c2 = spec["c"]
        ref = lambda x: c0 + x * (c1 + x * c2)   # noqa: E731
        obj = ref if k == "poly" else (c0 + Arg1D() * (c1 + Arg1D() * c2))
        lip = max(abs(c1), abs(c1 + 2.02 * c2))
        lab = "callable" if k == "poly" else "function1d"
    elif k == "gauss":
        a, c, w, bb = spec["a"], spec["c"], spec["w"], spec["b"]
        ref = lambda x: bb + a * math.exp(-0.5 * ((x - c) / w) ** 2)   # noqa: E731
        obj, lip, lab = ref, 0.6066 * abs(a) / w, "callable"
    elif k in ("zero", "const", "float"):
        v = 0.0 if k == "zero" else float(spec["v"])
        as_int = spec.get("ret_int", False) and float(v).is_integer()
        ref = lambda x: v   # noqa: E731
        if k == "float":     # the docstrings of map_vector2d/3d pass `v_normal = 0.0`
            obj, lab = (int(v) if as_int else v), "float"
        else:
            ret = int(v) if as_int else v
            obj, lab = (lambda x: ret), ("zero" if v == 0.0 else "const")
        lip = 0.0
    else:
        form = spec.get("form", "ndarray" if spec.get("numpy") else "list")
        x = spec["x"]
        y = [spec["c"][0] + spec["c"][1] * xi for xi in x] if k == "array_lin" else spec["y"]
        obj, can, arr = _array_form(x, y, form)
        if arr is not None:
            owned = (arr, np.array(arr))
        if k == "array_lin" and form not in ("f32", "int"):
            c0, c1 = spec["c"]
            ref = lambda t: c0 + c1 * t   # noqa: E731
            lab = "array-linear"
        else:                # the profile IS raysect's interpolator on the canonical float64 values
            ref = Interpolator1DArray(np.ascontiguousarray(can[0]), np.ascontiguousarray(can[1]), "cubic", "none", 0)
            lab = "array"
        lip = None
        lab2 = "array-form:" + form
        scale = max(max(abs(ref(float(t))) for t in xs), 1e-300)
        return obj, ref, lip, scale, [lab, lab2] + (["array-zeros"] if k == "array" and 0.0 in list(can[1]) else []), owned
    scale = max(max(abs(ref(float(t))) for t in xs), 1e-300)
    return obj, ref, lip, scale, [lab], owned


# ================================================================================================ analytic bounds
def _dmax(c, nr_, nz_, box):
    """max over the box of |d^nr/dR^nr d^nz/dZ^nz| of the polynomial c[i][j] R^i zeta^j (33x33 sample of the exact derivative)."""
    d = c
    for _ in range(nr_):
        d = NP.polyder(d, axis=0) if d.shape[0] > 1 else np.zeros((1, d.shape[1]))
    for _ in range(nz_):
        d = NP.polyder(d, axis=1) if d.shape[1] > 1 else np.zeros((d.shape[0], 1))
    rr, zz = np.meshgrid(np.linspace(box[0], box[1], 33), np.linspace(box[2], box[3], 33), indexing="ij")
    return float(np.max(np.abs(NP.polyval2d(rr, zz, d))))


def interp_bound(c, b, z0, edge_r, edge_z, dr=0, dz=0):
    """A-priori sup-norm error of raysect's cubic Interpolator2DArray for g = d^dr_R d^dz_Z of the polynomial c, on
    the uniform grid of bundle b, per point (edge_* flag the first/last cell of a direction).  See TOLERANCES."""
    hr, hz = (b.r[-1] - b.r[0]) / (len(b.r) - 1), (b.z[-1] - b.z[0]) / (len(b.z) - 1)
    box = (b.r[0], b.r[-1], b.z[0] - z0, b.z[-1] - z0)
    key = (dr, dz)
    if key not in b.mcache:
        b.mcache[key] = [[_dmax(c, dr + k, dz, box) for k in (2, 3, 4)], [_dmax(c, dr, dz + k, box) for k in (2, 3, 4)]]
    (m2r, m3r, m4r), (m2z, m3z, m4z) = b.mcache[key]
    ex = hr ** 3 * m3r / 24 + hr ** 4 * m4r / 384 + edge_r * hr * hr * m2r / 8
    ez = hz ** 3 * m3z / 24 + hz ** 4 * m4z / 384 + edge_z * hz * hz * m2z / 8
    return ex + LEBESGUE * ez


def analytic(b, r, z):
    """Synthetic equilibria: analytic psi_n (clamped), its tolerance, analytic B_pol and its tolerance."""
    s = b.synth
    if not hasattr(b, "mcache"):
        b.mcache = {}
    eps, dd = s["eps"], s["D"]
    edge_r = ((r <= b.r[1]) | (r >= b.r[-2])).astype(float)
    edge_z = ((z <= b.z[1]) | (z >= b.z[-2])).astype(float)
    uu = s["u"](r, z)
    raw = (uu - eps) / (1 - eps)
    e_psin = SAFETY * interp_bound(s["c"], b, s["z0"], edge_r, edge_z) / (1 - eps) + 1e-12 * (1 + abs(s["psi0"]) / abs(dd))
    hr, hz = (b.r[-1] - b.r[0]) / (len(b.r) - 1), (b.z[-1] - b.z[0]) / (len(b.z) - 1)
    box = (b.r[0], b.r[-1], b.z[0] - s["z0"], b.z[-1] - s["z0"])
    if "m3" not in b.mcache:
        b.mcache["m3"] = (_dmax(s["c"], 3, 0, box), _dmax(s["c"], 0, 3, box))
    m3r, m3z = b.mcache["m3"]
    d_r = LEBESGUE ** 2 * hr * hr * m3r / 3 + interp_bound(s["c"], b, s["z0"], edge_r, edge_z, dr=1)
    d_z = LEBESGUE ** 2 * hz * hz * m3z / 3 + interp_bound(s["c"], b, s["z0"], edge_r, edge_z, dz=1)
    bpol = np.column_stack([-dd * s["uz"](r, z) / r, dd * s["ur"](r, z) / r])
    e_b = SAFETY * abs(dd) * np.hypot(d_r, d_z) / r + 1e-12 * b.bscale
    return raw, e_psin, bpol, e_b


# ================================================================================================ common pieces
def _eq_labels(ctx, b):
    ctx.label("eq:" + b.name, "sign:negative" if b.dpsi < 0 else "sign:positive")
    if b.spec.get("sym", False):
        ctx.label("symmetric:negative" if b.dpsi < 0 else "symmetric:positive")
    if b.synth is not None:
        ctx.label("form:" + b.spec.get("form", "c"))
        if min(b.spec["nr"], b.spec["nz"]) < 20:
            ctx.label("grid:small")
        if b.spec["nrays"] < 64:
            ctx.label("polygon:small")
        if b.spec.get("nxp", 0) > 0:
            ctx.label("x-points")
    if b.spec["kind"] != "synth" and not (b.spec["s"] == 1.0 and b.spec["c"] == 0.0):
        ctx.label("eq:affine-variant")


def _psin(ctx, b, r, z):
    with ctx.cut("psi_normalised"):
        f = b.eq.psi_normalised
        psin = np.array([f(float(a), float(c)) for a, c in zip(r, z)])
    bad = np.nonzero(~(psin >= 0.0))[0]
    ctx.check(len(bad) == 0, "psi_n>=0", lambda: "psi_normalised(%r, %r) = %r (equilibrium %s)"
              % (float(r[bad[0]]), float(z[bad[0]]), float(psin[bad[0]]), json.dumps(b.spec)))
    return psin


def _check_psin_analytic(ctx, b, r, z, psin):
    """Synthetic equilibria: psi_normalised against the clamped analytic flux within the interpolation bound."""
    raw, e_psin, _, _ = analytic(b, r, z)
    psin_an = np.maximum(raw, 0.0)
    if (raw < -e_psin).any():
        ctx.label("clamp-active")
    err = np.abs(psin - psin_an)
    i = int(np.argmax(err - e_psin))
    ctx.check(err[i] <= e_psin[i], "psi_n-analytic", lambda: "psi_normalised(%r, %r) = %r, analytic %r, |diff| %.3g > bound %.3g (%s)"
              % (float(r[i]), float(z[i]), float(psin[i]), float(psin_an[i]), float(err[i]), float(e_psin[i]), json.dumps(b.spec)))
    return psin_an, e_psin


def _dense(case, b):
    """400 further lattice points over the grid rectangle and 100 within 0.15 minor radii of the axis (psi_n only)."""
    o = case["lat"]["o"]
    k = np.arange(1000, 1400)
    r = b.r[0] + ((o[0] + k * _A1) % 1.0) * (b.r[-1] - b.r[0])
    z = b.z[0] + ((o[1] + k * _A2) % 1.0) * (b.z[-1] - b.z[0])
    k = np.arange(100)
    rho, th = 0.15 * b.minor * ((o[2] + k * _A1) % 1.0) ** 2, 2 * math.pi * ((o[0] + k * _A2) % 1.0)
    r = np.concatenate([r, b.axis[0] + rho * np.cos(th)])
    z = np.concatenate([z, b.axis[1] + rho * np.sin(th)])
    return np.clip(r, b.r[0], b.r[-1]), np.clip(z, b.z[0], b.z[-1])


def _v(vec):
    return np.array([vec.x, vec.y, vec.z])


def _own_basis(bv):
    """t, p, n from a field vector, my own arithmetic; None for p, n if the in-plane field vanishes."""
    bp = math.hypot(bv[0], bv[2])
    t = np.array([0.0, 1.0, 0.0])
    if bp == 0.0:
        return t, None, None, 0.0
    p = np.array([bv[0] / bp, 0.0, bv[2] / bp])
    return t, p, np.cross(p, t), bp


# ================================================================================================ scalar
def run_scalar(case, ctx, bundle=None):
    b = bundle if bundle is not None else get_bundle(case["eq"], ctx)
    eq = b.eq
    _eq_labels(ctx, b)
    r, z, phi, ok3 = make_points(case, b)
    psin = _psin(ctx, b, r, z)
    inside, inpoly, amb, known = classify(b, r, z, psin)
    if known.any():
        ctx.label("excluded_known")
    either = amb | known
    n = len(r)
    # 3-D points
    xy = [xy_of(float(a), float(p)) for a, p in zip(r, phi)]
    x3, y3 = np.array([q[0] for q in xy]), np.array([q[1] for q in xy])
    r3 = np.sqrt(x3 * x3 + y3 * y3)
    if ((phi == 10.0) | (phi == 11.0))[ok3].any():
        ctx.label("phi:x<0,y=+-0")
    if (inside & (psin == 0.0)).any():
        ctx.label("psi_n==0-inside")
    ctx.label("entry:psi_normalised", "entry:map2d", "entry:map3d")
    near1 = np.abs(psin - 1.0) <= 1e-12
    rd, zd = _dense(case, b)               # dense sample: psi_n >= 0 (and the analytic flux) only
    psin_d = _psin(ctx, b, rd, zd)
    if b.synth is not None:
        _check_psin_analytic(ctx, b, rd, zd, psin_d)

    an = None
    if b.synth is not None:
        psin_an, e_psin = _check_psin_analytic(ctx, b, r, z, psin)
        inside_an = inpoly & (psin_an <= 1.0)
        either_an = either | (np.abs(psin_an - 1.0) <= e_psin)
        an = (psin_an, e_psin, inside_an, either_an)
        ctx.label("analytic")

    visible = False
    first = None
    for pc in case["profiles"]:
        obj, ref, lip, scale, labs, owned = build_profile(pc["p"])
        ctx.label(*["profile:" + l for l in labs])
        out = 0.0 if pc["default_out"] else float(pc["out"])
        oform = pc.get("out_form", "float")
        if oform == "int":
            out = float(round(out))
        scale = max(scale, abs(out))
        with ctx.cut("map2d/map3d construction"):
            if pc["default_out"]:
                f2, f3 = eq.map2d(obj), eq.map3d(obj)
                ctx.label("outside:default")
            elif oform == "kw":
                f2, f3 = eq.map2d(profile=obj, value_outside_lcfs=out), eq.map3d(profile=obj, value_outside_lcfs=out)
                ctx.label("outside:keyword")
            elif oform == "int":
                f2, f3 = eq.map2d(obj, int(out)), eq.map3d(obj, int(out))
                ctx.label("outside:int")
            else:
                f2, f3 = eq.map2d(obj, out), eq.map3d(obj, out)
        if owned is not None:     # the caller's array is untouched, and scribbling on it now must not change the mapping
            check_owned(ctx, [owned], "map2d/map3d(%s)" % json.dumps(pc["p"]))
            # the caller refills the very same array with another profile (same knots, other values) and maps again: the new function
            # follows the array's present content - exactly as a map of a fresh copy of it does -, the first map keeps the old one
            xo, co = owned
            xo[...] = co
            xo[1, ...] = 0.5 * co[1, ::-1] + (0.25 * float(np.max(np.abs(co[1]))) if xo.dtype.kind == "f" else 1)
            refill = np.array(xo)
            with ctx.cut("map2d/map3d construction"):
                g_same, g_copy = eq.map2d(xo, out), eq.map2d(np.array(refill), out)
                g3_same, g3_copy = eq.map3d(xo, out), eq.map3d(np.array(refill), out)
            for i in range(min(n, 16)):
                ri, zi = float(r[i]), float(z[i])
                with ctx.cut("map2d evaluation"):
                    va, vb, vc, vd = g_same(ri, zi), g_copy(ri, zi), g3_same(ri, 0.0, zi), g3_copy(ri, 0.0, zi)
                ctx.check(va == vb and vc == vd, "profile-array-refilled",
                          lambda: "the caller's profile array was refilled in place and mapped again: map2d / map3d of the same array object give "
                          "%r / %r at (%r, %r), of a fresh copy with the same content %r / %r" % (va, vc, ri, zi, vb, vd))
            ctx.check(np.array_equal(xo, refill), "caller-data-unchanged", "the refilled profile array was modified by map2d / map3d")
            xo[...] = -3.0 * xo - 7.0
            ctx.label("profile:array-refilled")
        tol = 1e-12 * scale
        got_all = []
        for i in range(n):
            ri, zi = float(r[i]), float(z[i])
            with ctx.cut("map2d evaluation"):
                got = f2(ri, zi)
            got_all.append(got)
            if i % 9 == 0 or (ri.is_integer() and zi.is_integer()):
                for fr, fz in coord_forms(ri, zi):
                    with ctx.cut("map2d evaluation"):
                        g = f2(fr, fz)
                    if type(fr) is int:
                        ctx.label("coords:int")
                    ctx.check(g == got, "coordinate-forms", lambda: "map2d(..)(%r, %r) = %r but %r for (%r, %r) of type %s"
                              % (ri, zi, got, g, fr, fz, type(fr).__name__))
            want = ref(float(psin[i])) if (inside[i] or either[i]) and psin[i] <= 1.0 else None
            if either[i]:
                okv = got == out or (want is not None and abs(got - want) <= tol)
            elif inside[i]:
                okv = abs(got - want) <= tol
                visible = visible or want != out
            else:
                okv = got == out
            ctx.check(okv, "map2d", lambda: "map2d(%s, outside=%r)(%r, %r) = %r; psi_n = %r, in polygon %s, inside %s -> expected %r (%s)"
                      % (json.dumps(pc["p"]), out, ri, zi, got, float(psin[i]), bool(inpoly[i]), bool(inside[i]),
                         want if inside[i] else out, json.dumps(b.spec)))
            if an is not None and lip is not None:
                pa, ea, ia, eia = an
                want_a = ref(float(min(pa[i], 1.0)))
                tol_a = lip * ea[i] + tol
                if eia[i]:
                    oka = got == out or abs(got - want_a) <= tol_a
                elif ia[i]:
                    oka = abs(got - want_a) <= tol_a
                else:
                    oka = got == out
                ctx.check(oka, "map2d-analytic", lambda: "map2d(%s, outside=%r)(%r, %r) = %r; analytic psi_n = %r (+-%.3g), analytic "
                          "inside %s -> expected %r +- %.3g (%s)" % (json.dumps(pc["p"]), out, ri, zi, got, float(pa[i]), float(ea[i]),
                                                                    bool(ia[i]), want_a if ia[i] else out, tol_a, json.dumps(b.spec)))
            if ok3[i]:
                xi, yi, rr = float(x3[i]), float(y3[i]), float(r3[i])
                with ctx.cut("map3d evaluation"):
                    g3 = f3(xi, yi, zi)
                    g2 = f2(rr, zi)
                ok = abs(g3 - g2) <= 1e-10 * scale or ((either[i] or near1[i]) and (g3 == out or g2 == out))
                ctx.check(ok, "map3d", lambda: "map3d(%r, %r, %r) = %r but map2d(sqrt(x^2+y^2)=%r, z) = %r (phi=%r, %s)"
                          % (xi, yi, zi, g3, rr, g2, float(phi[i]), json.dumps(b.spec)))
        if first is None:
            first = (pc, f2, got_all)
    # re-use: the equilibrium has served 1-3 mappings and ~10^3 evaluations; everything is reproduced bit for bit
    psin2 = _psin(ctx, b, r, z)
    ctx.check(np.array_equal(psin, psin2), "reuse", lambda: "psi_normalised differs on a second pass over the same points (%s)" % json.dumps(b.spec))
    pc, f2, got_all = first
    with ctx.cut("map2d re-use"):
        again = [f2(float(a), float(c)) for a, c in zip(r, z)]
        obj2 = build_profile(pc["p"])[0]
        f2b = eq.map2d(obj2) if pc["default_out"] else eq.map2d(obj2, float(round(pc["out"])) if pc.get("out_form") == "int" else float(pc["out"]))
        fresh = [f2b(float(a), float(c)) for a, c in zip(r, z)]
    ctx.check(again == got_all, "reuse", lambda: "the first mapped function gives different values when evaluated again at the end (%s)" % json.dumps(pc["p"]))
    ctx.check(fresh == got_all, "reuse", lambda: "map2d of the same profile built a second time gives different values (%s)" % json.dumps(pc["p"]))
    ctx.label("reuse")
    decided = ~either
    both = bool((inside & decided).any() and (~inside & decided).any())
    phis = bool((ok3 & (phi != 0.0)).any())
    if both:
        ctx.label("points:both-sides")
    if phis:
        ctx.label("phi!=0")
    ctx.nt(both and visible and phis)


# ================================================================================================ basis
def run_basis(case, ctx, bundle=None):
    b = bundle if bundle is not None else get_bundle(case["eq"], ctx)
    eq = b.eq
    _eq_labels(ctx, b)
    r, z, phi, ok3 = make_points(case, b)
    psin = _psin(ctx, b, r, z)
    inside, inpoly, amb, known = classify(b, r, z, psin)
    decided = ~(amb | known)
    both = bool((inside & decided).any() and (~inside & decided).any())
    thr = DEGENERATE * b.bscale
    an = analytic(b, r, z) if b.synth is not None else None
    if an is not None:
        ctx.label("analytic-field")
    t3f, p3f, n3f = (VectorAxisymmetricMapper(eq.toroidal_vector), VectorAxisymmetricMapper(eq.poloidal_vector),
                     VectorAxisymmetricMapper(eq.surface_normal))
    good = 0
    for i in range(len(r)):
        ri, zi = float(r[i]), float(z[i])
        with ctx.cut("basis evaluation"):
            bv, t = _v(eq.b_field(ri, zi)), _v(eq.toroidal_vector(ri, zi))
        try:
            # degenerate points only: |B_pol|^2 may underflow (|B_pol| < 1e-154, not exactly 0) and raysect's normalise() then
            # raises ZeroDivisionError instead of the zero-vector convenience - outside the statement, tolerated and labelled
            with ctx.cut("basis evaluation", allowed=(ZeroDivisionError,) if math.hypot(bv[0], bv[2]) < thr else ()):
                p, nn = _v(eq.poloidal_vector(ri, zi)), _v(eq.surface_normal(ri, zi))
        except ZeroDivisionError:
            ctx.label("degenerate", "degenerate:zero-division")
            continue
        where = "(%r, %r) B=%r [%s]" % (ri, zi, bv.tolist(), json.dumps(b.spec))
        ctx.check(np.all(np.isfinite(bv)), "field-finite", lambda: "b_field not finite at " + where)
        ctx.check(abs(np.linalg.norm(t) - 1) <= ALG and abs(t[1] - 1) <= ALG, "toroidal", lambda: "toroidal_vector %r at %s" % (t.tolist(), where))
        if an is not None:
            want, e_b = an[2][i], an[3][i]
            ctx.check(math.hypot(bv[0] - want[0], bv[2] - want[1]) <= e_b, "field-analytic",
                      lambda: "B_pol = (%r, %r) but D*(-U_Z, U_R)/R = (%r, %r), bound %.3g at %s" % (bv[0], bv[2], want[0], want[1], e_b, where))
        _, po, no, bp = _own_basis(bv)
        if bp < thr or po is None:
            ctx.label("degenerate")
            for nm, vec in (("poloidal", p), ("normal", nn)):
                ln = float(np.linalg.norm(vec))
                # (a poloidal field below 1e-150 T: its square is subnormal, so the normalisation itself has lost its precision)
                ctx.check(ln == 0.0 or abs(ln - 1) <= (ALG if bp >= 1e-150 else 1e-3), "degenerate",
                          lambda: "%s vector %r is neither zero nor unit at %s" % (nm, vec.tolist(), where))
            continue
        good += 1
        if (bv[0] == 0.0) != (bv[2] == 0.0):      # exactly one in-plane component is 0.0: the basis is well defined, all relations apply
            ctx.label("one-zero:Br" if bv[0] == 0.0 else "one-zero:Bz")
        ctx.check(abs(np.linalg.norm(p) - 1) <= ALG and abs(np.linalg.norm(nn) - 1) <= ALG, "unit",
                  lambda: "|p| = %r, |n| = %r at %s" % (float(np.linalg.norm(p)), float(np.linalg.norm(nn)), where))
        ctx.check(max(abs(float(t @ p)), abs(float(t @ nn)), abs(float(p @ nn))) <= ALG, "orthogonal",
                  lambda: "t.p=%r t.n=%r p.n=%r at %s" % (float(t @ p), float(t @ nn), float(p @ nn), where))
        ctx.check(float(np.max(np.abs(nn - np.cross(p, t)))) <= ALG, "normal=pxt",
                  lambda: "surface_normal %r but poloidal x toroidal = %r at %s" % (nn.tolist(), np.cross(p, t).tolist(), where))
        ctx.check(float(np.max(np.abs(p - po))) <= ALG, "poloidal-along-B",
                  lambda: "poloidal_vector %r but (B_r, 0, B_z)/|B_pol| = %r at %s" % (p.tolist(), po.tolist(), where))
        ctx.check(abs(float(bv @ nn)) <= ALG * float(np.linalg.norm(bv)), "B.n=0", lambda: "B.n = %r at %s" % (float(bv @ nn), where))
        if ok3[i]:
            ph = float(phi[i])
            xi, yi = xy_of(ri, ph)
            if ph in (10.0, 11.0):
                ctx.label("phi:x<0,y=+-0")
            rr = math.sqrt(xi * xi + yi * yi)
            a = math.atan2(yi, xi)
            ca, sa = math.cos(a), math.sin(a)
            with ctx.cut("basis 3-D evaluation"):
                t3, p3, n3 = _v(t3f(xi, yi, zi)), _v(p3f(xi, yi, zi)), _v(n3f(xi, yi, zi))
                p2 = _v(eq.poloidal_vector(rr, zi))
            ctx.check(float(np.max(np.abs(t3 - np.array([-sa, ca, 0.0])))) <= ALG, "toroidal-3d",
                      lambda: "toroidal vector at (%r, %r, %r) is %r, expected %r" % (xi, yi, zi, t3.tolist(), [-sa, ca, 0.0]))
            ctx.check(float(np.max(np.abs(p3 - np.array([p2[0] * ca, p2[0] * sa, p2[2]])))) <= ALG, "poloidal-3d",
                      lambda: "poloidal vector at (%r, %r, %r) is %r, 2-D %r rotated by %r" % (xi, yi, zi, p3.tolist(), p2.tolist(), a))
            ctx.check(float(np.max(np.abs(n3 - np.cross(p3, t3)))) <= ALG and abs(float(p3 @ t3)) <= ALG, "basis-3d",
                      lambda: "3-D basis at (%r, %r, %r): n=%r, p x t=%r" % (xi, yi, zi, n3.tolist(), np.cross(p3, t3).tolist()))
    # B from the flux at interior grid nodes (central differences)
    nr_, nz_ = len(b.r), len(b.z)
    for fi, fj in case["nodes"]:
        i, j = 1 + int(fi * (nr_ - 2 - 1e-9)), 1 + int(fj * (nz_ - 2 - 1e-9))
        i, j = min(i, nr_ - 2), min(j, nz_ - 2)
        ri, zj = float(b.r[i]), float(b.z[j])
        want_r = -(b.psi[i, j + 1] - b.psi[i, j - 1]) / (b.z[j + 1] - b.z[j - 1]) / ri
        want_z = (b.psi[i + 1, j] - b.psi[i - 1, j]) / (b.r[i + 1] - b.r[i - 1]) / ri
        with ctx.cut("b_field evaluation"):
            bv = _v(eq.b_field(ri, zj))
        ctx.check(abs(bv[0] - want_r) <= 1e-9 * b.bscale and abs(bv[2] - want_z) <= 1e-9 * b.bscale, "field-at-nodes",
                  lambda: "B_pol at node (%d, %d) = (%r, %r) is (%r, %r); -dpsi/dZ/R, dpsi/dR/R by central differences = (%r, %r) [%s]"
                  % (i, j, ri, zj, bv[0], bv[2], want_r, want_z, json.dumps(b.spec)))
    ctx.label("nodes", "entry:b_field", "entry:toroidal_vector", "entry:poloidal_vector", "entry:surface_normal")
    if case.get("mutate"):      # a caller that modifies a basis vector it was given must not change the equilibrium's basis
        ri, zi = float(r[0]), float(z[0])
        with ctx.cut("basis evaluation"):
            for f in (eq.toroidal_vector, eq.b_field):
                g = f(ri, zi)
                before = _v(g)
                g.x, g.y = g.x + 1.0, g.y * 0.5
                again = _v(f(ri, zi))
                if not np.array_equal(again, before):
                    _CACHE.pop(canon(b.spec), None)       # the cached equilibrium is damaged now
                ctx.check(np.array_equal(again, before), "returned-vector-aliased", lambda: "a basis/field function returned %r at (%r, %r); after the caller "
                          "modified that returned Vector3D in place the same call returns %r" % (before.tolist(), ri, zi, again.tolist()))
        ctx.label("mutate-returned")
    ctx.nt(good >= 10 and both)


# ================================================================================================ vector
def run_vector(case, ctx, bundle=None):
    b = bundle if bundle is not None else get_bundle(case["eq"], ctx)
    eq = b.eq
    _eq_labels(ctx, b)
    r, z, phi, ok3 = make_points(case, b)
    psin = _psin(ctx, b, r, z)
    inside, inpoly, amb, known = classify(b, r, z, psin)
    if known.any():
        ctx.label("excluded_known")
    either = amb | known
    near1 = np.abs(psin - 1.0) <= 1e-12
    thr = DEGENERATE * b.bscale
    profs = [build_profile(case[k]) for k in ("vt", "vp", "vn")]
    for nm, pf in zip(("vt", "vp", "vn"), profs):
        ctx.label(*["profile:" + l for l in pf[4]])
        if pf[4][0] in ("zero", "float") or (pf[4][0] == "const" and case[nm]["v"] == 0.0):
            ctx.label("zero-component:" + nm)
    ctx.label("entry:map_vector2d", "entry:map_vector3d")
    vscale = max(p[3] for p in profs)
    objs = [p[0] for p in profs]
    outobj = None
    if case["out"] is None:
        ctx.label("outside:none")
        outv = np.zeros(3)
        with ctx.cut("map_vector construction"):
            if case.get("out_kw"):
                f2, f3 = eq.map_vector2d(toroidal=objs[0], poloidal=objs[1], normal=objs[2]), eq.map_vector3d(toroidal=objs[0], poloidal=objs[1], normal=objs[2])
            else:
                f2, f3 = eq.map_vector2d(*objs), eq.map_vector3d(*objs)
    else:
        ctx.label("outside:vector")
        outv = np.array(case["out"], dtype=float)
        outobj = Vector3D(*case["out"])
        with ctx.cut("map_vector construction"):
            if case.get("out_kw"):
                f2 = eq.map_vector2d(objs[0], objs[1], objs[2], value_outside_lcfs=outobj)
                f3 = eq.map_vector3d(objs[0], objs[1], objs[2], value_outside_lcfs=outobj)
            else:
                f2, f3 = eq.map_vector2d(objs[0], objs[1], objs[2], outobj), eq.map_vector3d(objs[0], objs[1], objs[2], outobj)
        ctx.check((outobj.x, outobj.y, outobj.z) == tuple(outv), "caller-data-unchanged", "the caller's outside Vector3D was modified by map_vector2d/3d")
        outobj.x, outobj.y, outobj.z = outobj.x + 1.0, -2.0 * outobj.y - 1.0, 7.0      # the caller re-uses its vector: no effect on the mapping
    check_owned(ctx, [pf[5] for pf in profs if pf[5] is not None], "map_vector2d/3d")
    tol = ALG * vscale
    visible = False
    kept = []
    for i in range(len(r)):
        ri, zi = float(r[i]), float(z[i])
        with ctx.cut("map_vector2d evaluation"):
            bv = _v(eq.b_field(ri, zi))
        deg = math.hypot(bv[0], bv[2]) < thr
        try:     # degenerate points: ZeroDivisionError from an underflowing |B_pol|^2 is tolerated (see run_basis)
            with ctx.cut("map_vector2d evaluation", allowed=(ZeroDivisionError,) if deg else ()):
                gobj = f2(ri, zi)
                got = _v(gobj)
        except ZeroDivisionError:
            ctx.label("degenerate", "degenerate:zero-division")
            continue
        if len(kept) < 12 or i % 11 == 0:
            kept.append((ri, zi, gobj, got.copy()))
        is_out = bool(np.all(got == outv))
        msg = None
        if (inside[i] or either[i]) and psin[i] <= 1.0:
            comp = [p[1](float(psin[i])) for p in profs]
            t, po, no, bp = _own_basis(bv)
            if bp < thr or po is None:
                ctx.label("degenerate")
                if abs(float(got @ t) - comp[0]) > tol:
                    msg = "toroidal component %r, expected %r (degenerate point)" % (float(got @ t), comp[0])
            else:
                gc = [float(got @ t), float(got @ po), float(got @ no)]
                if (bv[0] == 0.0) != (bv[2] == 0.0) and not either[i] and max(abs(comp[1]), abs(comp[2])) > tol:
                    ctx.label("one-zero")          # decided inside point, exactly one in-plane component 0.0, v_p or v_n visible
                if max(abs(g - c) for g, c in zip(gc, comp)) > tol:
                    msg = "components along (t, p, n) = %r, prescribed %r at psi_n = %r" % (gc, comp, float(psin[i]))
                elif not either[i] and any(abs(c) > 0 for c in comp) and not np.all(comp[0] * t + comp[1] * po + comp[2] * no == outv):
                    visible = True
            if either[i] and is_out:
                msg = None
        elif not is_out:
            msg = "outside the LCFS (in polygon %s, psi_n %r) but the vector is %r, not the outside value %r" % (
                bool(inpoly[i]), float(psin[i]), got.tolist(), outv.tolist())
        ctx.check(msg is None, "map_vector2d", lambda: "map_vector2d at (%r, %r), B=%r: %s [vt=%s vp=%s vn=%s eq=%s]"
                  % (ri, zi, bv.tolist(), msg, json.dumps(case["vt"]), json.dumps(case["vp"]), json.dumps(case["vn"]), json.dumps(b.spec)))
        if ok3[i]:
            ph = float(phi[i])
            xi, yi = xy_of(ri, ph)
            if ph in (10.0, 11.0):
                ctx.label("phi:x<0,y=+-0")
            rr = math.sqrt(xi * xi + yi * yi)
            a = math.atan2(yi, xi)
            ca, sa = math.cos(a), math.sin(a)
            try:
                with ctx.cut("map_vector3d evaluation", allowed=(ZeroDivisionError,) if deg else ()):
                    g3 = _v(f3(xi, yi, zi))
                    g2 = _v(f2(rr, zi))
            except ZeroDivisionError:
                ctx.label("degenerate:zero-division")
                continue

            def rot(v):
                return np.array([v[0] * ca - v[1] * sa, v[0] * sa + v[1] * ca, v[2]])
            want = rot(g2)
            lim = 1e-10 * max(float(np.max(np.abs(g2))), vscale * 1e-6, 1e-300)   # max-abs: norm() underflows for |v| ~ 1e-178
            ok = float(np.max(np.abs(g3 - want))) <= lim
            if not ok and (either[i] or near1[i]):      # a 1-ulp radius difference may change sides on the boundary
                ok = float(np.max(np.abs(g3 - rot(outv)))) <= lim or bool(np.all(g2 == outv))
            ctx.check(ok, "map_vector3d", lambda: "map_vector3d(%r, %r, %r) = %r but Rz(%r rad) map_vector2d(%r, %r) = Rz %r = %r [eq=%s]"
                      % (xi, yi, zi, g3.tolist(), a, rr, zi, g2.tolist(), want.tolist(), json.dumps(b.spec)))
    # re-use: vectors returned earlier are intact, a second pass with the same function object reproduces them bit for bit
    for ri, zi, gobj, snap in kept:      # first the objects handed out earlier (before anything is evaluated again) ...
        ctx.check(np.array_equal(_v(gobj), snap), "reuse", lambda: "a vector returned earlier for (%r, %r) changed from %r to %r while the function "
                  "was evaluated elsewhere" % (ri, zi, snap.tolist(), _v(gobj).tolist()))
    for ri, zi, gobj, snap in kept:      # ... then a second pass
        with ctx.cut("map_vector2d re-use"):
            again = _v(f2(ri, zi))
        ctx.check(np.array_equal(again, snap), "reuse", lambda: "map_vector2d(..)(%r, %r) = %r on the second pass, %r on the first"
                  % (ri, zi, again.tolist(), snap.tolist()))
    ctx.label("reuse")
    decided = ~either
    if case.get("mutate"):      # a caller that modifies a vector it was given (v.x += ..) must not change later answers
        for i in np.nonzero(~inside & decided)[0][:3]:
            ri, zi = float(r[i]), float(z[i])
            with ctx.cut("map_vector2d evaluation"):
                g = f2(ri, zi)
                g.x, g.z = g.x + 1.0, g.z - 2.0
                again = _v(f2(ri, zi))
            ctx.check(np.array_equal(again, outv), "returned-vector-aliased", lambda: "map_vector2d(..)(%r, %r) returned %r (the outside value); after the "
                      "caller modified that returned Vector3D in place the same call returns %r" % (ri, zi, outv.tolist(), again.tolist()))
            ctx.label("mutate-returned")
    both = bool((inside & decided).any() and (~inside & decided).any())
    phis = bool((ok3 & (phi != 0.0)).any())
    if phis:
        ctx.label("phi!=0")
    ctx.nt(both and visible and phis)


# ================================================================================================ api
from cherab.tools.equilibrium.efit import EFITLCFSMask, MagneticField, PoloidalFieldVector, FluxSurfaceNormal, FluxCoordToCartesian  # noqa: E402


def _twin_args(args, kind):
    """(arguments in a non-float64 dtype / nested container, the canonical float64 arguments with the same values)."""
    r, z, psi, pa, pl, ax, xp, sp, f, q, bvr, bvm, poly, lim, t = args
    if kind in ("f32", "f32-all"):
        psi_a = psi.astype(np.float32)
        a = [r, z, psi_a, pa, pl, ax, xp, sp, f, q, bvr, bvm, poly, lim, t]
        c = [r, z, psi_a.astype(np.float64), pa, pl, ax, xp, sp, f, q, bvr, bvm, poly, lim, t]
        if kind == "f32-all":
            for i in (0, 1, 8, 9, 12):
                a[i] = np.asarray(a[i]).astype(np.float32)
                c[i] = a[i].astype(np.float64)
        return a, c
    if kind == "int-profiles":       # integer dtype: 2-knot F and q profiles on psi_n = {0, 1}
        fi = np.array([[0, 1], [int(round(f[1, 0])) or 2, int(round(f[1, -1])) or 3]], dtype=int)
        qi = np.array([[0, 1], [1, 4]], dtype=np.int32)
        a = [r, z, psi, pa, pl, ax, xp, sp, fi, qi, bvr, bvm, poly, lim, t]
        c = [r, z, psi, pa, pl, ax, xp, sp, fi.astype(np.float64), qi.astype(np.float64), bvr, bvm, poly, lim, t]
        return a, c
    a = [tuple(r.tolist()), tuple(z.tolist()), tuple(map(tuple, psi.tolist())), pa, pl, ax, tuple(xp), tuple(sp), tuple(map(tuple, f.tolist())),
         tuple(map(tuple, q.tolist())), bvr, bvm, tuple(map(tuple, poly.tolist())), tuple(map(tuple, lim.tolist())) if lim is not None else None, t]
    return a, list(args)


def run_api(case, ctx):
    b = get_bundle(case["eq"], ctx)
    eq = b.eq
    _eq_labels(ctx, b)
    r, z, phi, ok3 = make_points(case, b)
    spec = b.spec
    # ---- what the object reports about itself equals what it was given (read twice: same answer)
    if b.synth is not None:
        a = b.args
        given = dict(psi_axis=a[3], psi_lcfs=a[4], axis=(a[5].x, a[5].y), xp=[(p.x, p.y) for p in a[6]], sp=[(p.x, p.y) for p in a[7]],
                     time=a[14], lim=None if a[13] is None else np.ascontiguousarray(a[13].T), f=a[8], q=a[9])
    else:
        d, s_, c_ = b.json, spec["s"], spec["c"]
        given = dict(psi_axis=s_ * d["psi_axis"] + c_, psi_lcfs=s_ * d["psi_lcfs"] + c_, axis=tuple(d["axis"]), xp=[tuple(p) for p in d["xp"]],
                     sp=[tuple(p) for p in d["sp"]], time=d["time"], lim=np.ascontiguousarray(np.array(d["lim"], dtype=float).T),
                     f=np.array(d["f"], dtype=float), q=np.array(d["q"], dtype=float))
    for rep_ in range(2):
        with ctx.cut("attribute access"):
            got = dict(psi_axis=eq.psi_axis, psi_lcfs=eq.psi_lcfs, axis=(eq.magnetic_axis.x, eq.magnetic_axis.y),
                       xp=[(p.x, p.y) for p in eq.x_points], sp=[(p.x, p.y) for p in eq.strike_points], time=eq.time,
                       r_range=tuple(eq.r_range), z_range=tuple(eq.z_range), r=np.array(eq.r_data), z=np.array(eq.z_data),
                       psi=np.array(eq.psi_data), poly=np.array(eq.lcfs_polygon),
                       lim=None if eq.limiter_polygon is None else np.array(eq.limiter_polygon))
        for k in ("psi_axis", "psi_lcfs", "axis", "xp", "sp", "time"):
            ctx.check(got[k] == given[k], "attributes", lambda: "%s reads %r, constructed with %r (%s)" % (k, got[k], given[k], json.dumps(spec)))
        ctx.check(got["r_range"] == (b.r.min(), b.r.max()) and got["z_range"] == (b.z.min(), b.z.max()), "attributes",
                  lambda: "r_range/z_range %r %r for a grid %r..%r x %r..%r" % (got["r_range"], got["z_range"], b.r[0], b.r[-1], b.z[0], b.z[-1]))
        for k, want in (("r", b.r), ("z", b.z), ("psi", b.psi), ("poly", b.poly)):
            ctx.check(got[k].shape == want.shape and np.array_equal(got[k], want), "attributes",
                      lambda: "%s_data / lcfs_polygon differs from the constructor argument (%s)" % (k, json.dumps(spec)))
        ctx.check((got["lim"] is None) == (given["lim"] is None) and (got["lim"] is None or np.array_equal(got["lim"], given["lim"])), "attributes",
                  lambda: "limiter_polygon reads %r (%s)" % (got["lim"], json.dumps(spec)))
    ctx.label("entry:attributes", "entry:EFITEquilibrium")
    # ---- psi, psi_normalised, inside_lcfs, inside_limiter
    psin = _psin(ctx, b, r, z)
    inside, inpoly, amb, known = classify(b, r, z, psin)
    either = amb | known
    dpsi = given["psi_lcfs"] - given["psi_axis"]
    tol_n = 1e-10 * (float(np.max(np.abs(b.psi))) + abs(given["psi_axis"])) / abs(dpsi) + 1e-12
    lim_seen = set()
    for i in range(len(r)):
        ri, zi = float(r[i]), float(z[i])
        with ctx.cut("psi / inside_lcfs / inside_limiter"):
            psi_v, m = eq.psi(ri, zi), eq.inside_lcfs(ri, zi)
            ml = None if eq.inside_limiter is None else eq.inside_limiter(ri, zi)
        want = max(0.0, (psi_v - given["psi_axis"]) / dpsi)
        ctx.check(abs(psin[i] - want) <= tol_n, "psi-vs-psi_n", lambda: "psi_normalised(%r, %r) = %r but max(0, (psi - psi_axis)/(psi_lcfs - psi_axis)) = %r "
                  "with psi = %r (%s)" % (ri, zi, float(psin[i]), want, psi_v, json.dumps(spec)))
        ctx.check(m in (0.0, 1.0) and (either[i] or m == float(inside[i])), "inside_lcfs", lambda: "inside_lcfs(%r, %r) = %r; in polygon %s, psi_n = %r (%s)"
                  % (ri, zi, m, bool(inpoly[i]), float(psin[i]), json.dumps(spec)))
        ctx.check(ml is None or ml in (0.0, 1.0), "inside_limiter", lambda: "inside_limiter(%r, %r) = %r" % (ri, zi, ml))
        lim_seen.add(ml)
    ctx.label("entry:psi", "entry:inside_lcfs", "entry:inside_limiter:none" if None in lim_seen else "entry:inside_limiter")
    # ---- F and q profiles reproduce their samples on the knots; psin_to_r answers inside the grid
    for nm, fn, data in (("f_profile", eq.f_profile, given["f"]), ("q", eq.q, given["q"])):
        data = np.asarray(data, dtype=float)
        with ctx.cut(nm):
            vals = np.array([fn(float(x)) for x in data[0]])
        ctx.close(vals, data[1], nm, rtol=1e-12, info="(%s at its own knots, %s)" % (nm, json.dumps(spec)))
    ctx.label("entry:f_profile", "entry:q")
    if eq.psin_to_r is not None:
        with ctx.cut("psin_to_r"):
            v = eq.psin_to_r(0.5)
        ctx.check(math.isfinite(v), "psin_to_r", lambda: "psin_to_r(0.5) = %r" % v)
        ctx.label("entry:psin_to_r")
    else:
        ctx.label("entry:psin_to_r:none")
    # ---- the package loaders, called again (explicit path): same object as the default call
    if spec["kind"] != "synth":
        with ctx.cut("loader"):
            e2 = example_equilibrium() if spec["kind"] == "example" else \
                load_equilibrium(file_path=os.path.join(os.path.dirname(_cge.__file__), "data", "generomak_equilibrium.json"))
            v2 = [e2.psi_normalised(float(a), float(c)) for a, c in zip(r[:10], z[:10])]
        if spec["s"] == 1.0 and spec["c"] == 0.0:
            ctx.check(v2 == [float(x) for x in psin[:10]], "loader", lambda: "a second call of the loader gives a different psi_normalised")
        ctx.label("entry:example_equilibrium" if spec["kind"] == "example" else "entry:load_equilibrium")
    else:
        # ---- other dtypes / nested containers give the same object as float64 arrays of the same values
        ta, tc = _twin_args(b.args, case["twin"])
        with ctx.cut("construct (twin)"):
            e_a, e_c = EFITEquilibrium(*ta), EFITEquilibrium(*tc)
        rr = np.clip(r[:24], max(e_c.r_range[0], b.r[0]), min(e_c.r_range[1], b.r[-1]))
        zz = np.clip(z[:24], max(e_c.z_range[0], b.z[0]), min(e_c.z_range[1], b.z[-1]))
        for ri, zi in zip(rr, zz):
            ri, zi = float(ri), float(zi)
            with ctx.cut("twin evaluation"):
                va = (e_a.psi_normalised(ri, zi), e_a.inside_lcfs(ri, zi)) + tuple(_v(e_a.b_field(ri, zi)))
                vc = (e_c.psi_normalised(ri, zi), e_c.inside_lcfs(ri, zi)) + tuple(_v(e_c.b_field(ri, zi)))
            ctx.check(va == vc, "dtype-forms", lambda: "constructed from %s data: (psi_n, inside, B) = %r at (%r, %r); from float64 arrays of the same "
                      "values: %r (%s)" % (case["twin"], va, ri, zi, vc, json.dumps(spec)))
        ctx.label("twin:" + case["twin"])
    # ---- the helper classes of efit.pyx built directly on Python callables
    poly = [[0.0, 0.0], [2.0, 0.0], [2.0, 1.0], [0.0, 1.0]]
    for pn in case["psin"]:
        with ctx.cut("EFITLCFSMask"):
            m_in = EFITLCFSMask(poly, lambda a_, b_: pn)(0.7, 0.3)
            m_out = EFITLCFSMask(np.array(poly), lambda a_, b_: pn)(2.5, 0.3)
        ctx.check(m_in == (1.0 if pn <= 1.0 else 0.0) and m_out == 0.0, "EFITLCFSMask", lambda: "mask = %r inside / %r outside the polygon for psi_n = %r" % (m_in, m_out, pn))
        if pn == 1.0:
            ctx.label("mask:psi_n==1")
    profs = [build_profile(p_) for p_ in case["comp"]]
    pscale = max(p_[3] for p_ in profs)
    for k, fv in enumerate(case["fields"]):
        fx, fy, fz = fv
        field = lambda a_, b_: Vector3D(fx, fy, fz)   # noqa: E731
        pn = float(case["psin"][k % len(case["psin"])])
        pn = min(pn, 1.0)
        bp = math.hypot(fx, fz)
        with ctx.cut("helper classes"):
            pv, nv = _v(PoloidalFieldVector(field)(1.5, 0.25)), _v(FluxSurfaceNormal(field)(1.5, 0.25))
            cv = _v(FluxCoordToCartesian(field, lambda a_, b_: pn, profs[0][1], profs[1][1], profs[2][1])(1.5, 0.25))
        comp = [p_[1](pn) for p_ in profs]
        if bp == 0.0:
            wp, wn, wc = np.zeros(3), np.zeros(3), np.array([0.0, comp[0], 0.0])
            ctx.label("helper:zero-field")
        else:
            wp = np.array([fx / bp, 0.0, fz / bp])
            wn = np.cross(wp, [0.0, 1.0, 0.0])
            wc = comp[0] * np.array([0.0, 1.0, 0.0]) + comp[1] * wp + comp[2] * wn
            if (fx == 0.0) != (fz == 0.0):
                ctx.label("helper:one-zero")
        ctx.check(float(np.max(np.abs(pv - wp))) <= ALG and float(np.max(np.abs(nv - wn))) <= ALG, "helper-basis",
                  lambda: "field %r: PoloidalFieldVector %r (expected %r), FluxSurfaceNormal %r (expected %r)" % (fv, pv.tolist(), wp.tolist(), nv.tolist(), wn.tolist()))
        ctx.check(float(np.max(np.abs(cv - wc))) <= ALG * pscale, "helper-velocity",
                  lambda: "field %r, psi_n %r, components %r: FluxCoordToCartesian %r, expected %r" % (fv, pn, comp, cv.tolist(), wc.tolist()))
    m0, m1, m2, m3, m4, m5 = case["mf"]
    rq = 1.0 + abs(m5)
    with ctx.cut("MagneticField"):
        mf_in = _v(MagneticField(lambda a_, b_: 0.5, lambda a_, b_: m0, lambda a_, b_: m1, lambda x_: m2, m3, m4, lambda a_, b_: 1.0)(rq, 0.5))
        mf_out = _v(MagneticField(lambda a_, b_: 1.5, lambda a_, b_: m0, lambda a_, b_: m1, lambda x_: m2, m3, m4, lambda a_, b_: 0.0)(rq, 0.5))
    ctx.close([mf_in[0], mf_in[2], mf_out[0], mf_out[2]], [-m1 / rq, m0 / rq, -m1 / rq, m0 / rq], "MagneticField", rtol=1e-12, atol=1e-300,
              info="B_r = -dpsi_dz/r, B_z = dpsi_dr/r with dpsi_dr=%r dpsi_dz=%r r=%r" % (m0, m1, rq))
    ctx.label("entry:EFITLCFSMask", "entry:MagneticField", "entry:PoloidalFieldVector", "entry:FluxSurfaceNormal", "entry:FluxCoordToCartesian")
    ctx.nt(bool((inside & ~either).any() and (~inside & ~either).any()))


# ================================================================================================ interference / repeat
def _make_funcs(ctx, b, ps, out, vs, vout, objs=None):
    """The four mapped functions of equilibrium b for scalar profile spec ps and vector profile specs vs (fresh profile objects
    unless objs is given).  Caller-owned arrays are checked (and then overwritten) right after the calls."""
    built = objs if objs is not None else [build_profile(x) for x in [ps] + list(vs)]
    o = [x[0] for x in built]
    with ctx.cut("map2d/map3d/map_vector2d/map_vector3d construction"):
        if vout is None:
            f = dict(f2=b.eq.map2d(o[0], out), f3=b.eq.map3d(o[0], out), v2=b.eq.map_vector2d(o[1], o[2], o[3]), v3=b.eq.map_vector3d(o[1], o[2], o[3]))
        else:
            f = dict(f2=b.eq.map2d(o[0], out), f3=b.eq.map3d(o[0], out), v2=b.eq.map_vector2d(o[1], o[2], o[3], Vector3D(*vout)),
                     v3=b.eq.map_vector3d(o[1], o[2], o[3], Vector3D(*vout)))
    if objs is None:
        owned = [x[5] for x in built if x[5] is not None]
        if owned:
            check_owned(ctx, owned, "map2d/map3d/map_vector2d/map_vector3d")
            ctx.label("caller-arrays")
    return f, built


def _eval_funcs(ctx, b, f, r, z, phi, ok3, direct=True):
    """Everything observable at the points, as plain tuples (bit comparison), plus the Vector3D objects handed out.
    ZeroDivisionError (degenerate points, see run_basis) is recorded as a value: it must come back the same way."""
    eq = b.eq
    vals, objs = [], []

    def vec(fn, *a):
        try:
            with ctx.cut("evaluation", allowed=(ZeroDivisionError,)):
                v = fn(*a)
        except ZeroDivisionError:
            return "ZeroDivisionError"
        t = (v.x, v.y, v.z)
        objs.append((v, t))
        return t
    for i in range(len(r)):
        ri, zi = float(r[i]), float(z[i])
        with ctx.cut("evaluation"):
            row = [f["f2"](ri, zi)]
            if direct:
                row += [eq.psi_normalised(ri, zi), eq.psi(ri, zi), eq.inside_lcfs(ri, zi)]
        row.append(vec(f["v2"], ri, zi))
        if direct:
            row += [vec(eq.b_field, ri, zi), vec(eq.toroidal_vector, ri, zi), vec(eq.poloidal_vector, ri, zi), vec(eq.surface_normal, ri, zi)]
        if ok3[i]:
            xi, yi = xy_of(ri, float(phi[i]))
            with ctx.cut("evaluation"):
                row.append(f["f3"](xi, yi, zi))
            row.append(vec(f["v3"], xi, yi, zi))
        vals.append(tuple(row))
    if direct:
        with ctx.cut("evaluation"):
            vals.append((eq.f_profile(0.5), eq.q(0.25), eq.psi_axis, eq.psi_lcfs, tuple(eq.r_range), tuple(eq.z_range), eq.magnetic_axis.x, eq.magnetic_axis.y))
    return vals, objs


def _first_diff(a, b_):
    for i, (x, y) in enumerate(zip(a, b_)):
        if x != y:
            return "entry %d: %r != %r" % (i, x, y)
    return "lengths %d / %d" % (len(a), len(b_))


def _intact(ctx, objs, what):
    bad = [(t, (v.x, v.y, v.z)) for v, t in objs if (v.x, v.y, v.z) != t]
    ctx.check(not bad, "repeat", lambda: "%s: a Vector3D returned earlier changed from %r to %r" % (what, bad[0][0], bad[0][1]))


def run_interfere(case, ctx):
    ca, cb = case["A"], case["B"]
    a = get_bundle(ca["s"]["eq"], ctx, fresh=True)
    r, z, phi, ok3 = make_points(ca["s"], a)
    xs = ca["s"]["profiles"][0]
    xv = (ca["v"]["vt"], ca["v"]["vp"], ca["v"]["vn"])
    xout, xvout = float(xs["out"]), ca["v"]["out"]
    fa, built_x = _make_funcs(ctx, a, xs["p"], xout, xv, xvout)
    order = case["order"]
    if order == 1:       # A is used, then B is built and used, then A must answer exactly as before
        s1, objs1 = _eval_funcs(ctx, a, fa, r, z, phi, ok3)
        ctx.label("interference:A-then-B")
    else:                # A exists but is not evaluated before B has been built and used
        ctx.label("interference:B-before-A-first-use")
    # ---- B: other parameters, same way of construction; part of its points are A's coordinates (memo keyed on the point only)
    b = get_bundle(cb["s"]["eq"], ctx, fresh=True)
    extra = [["abs", float(r[i]), float(z[i]), float(phi[i])] for i in range(0, len(r), 5)][:16]
    for k in ("s", "b", "v"):
        cb[k] = dict(cb[k], pts=list(cb[k]["pts"]) + extra)
    if case["share"]:    # the very same profile objects mapped onto both equilibria (one Te(psi_n) function, two time slices)
        callables = [x if not isinstance(x[0], (list, tuple, np.ndarray)) else build_profile(sp) for x, sp in zip(built_x, [xs["p"]] + list(xv))]
        fb, _ = _make_funcs(ctx, b, None, xout, None, xvout, objs=callables)
        rb, zb, pb, ob = make_points(cb["s"], b)
        psin_b = _psin(ctx, b, rb, zb)
        inside_b, _, amb_b, known_b = classify(b, rb, zb, psin_b)
        ref, scale = built_x[0][1], max(built_x[0][3], abs(xout))
        for i in range(len(rb)):
            if amb_b[i] or known_b[i]:
                continue
            with ctx.cut("evaluation"):
                got = fb["f2"](float(rb[i]), float(zb[i]))
            want = ref(float(psin_b[i])) if inside_b[i] else xout
            ctx.check(abs(got - want) <= 1e-12 * scale if inside_b[i] else got == want, "interference",
                      lambda: "the profile object already mapped onto equilibrium A, mapped onto B: map2d(..)(%r, %r) = %r, expected %r (psi_n = %r, "
                      "inside %s) [A=%s B=%s]" % (float(rb[i]), float(zb[i]), got, want, float(psin_b[i]), bool(inside_b[i]),
                                                   json.dumps(a.spec), json.dumps(b.spec)))
        ctx.label("shared-profile-object")
    run_scalar(cb["s"], ctx, bundle=b)          # B against the independent oracles while A is alive (and, order 1, already used)
    run_vector(cb["v"], ctx, bundle=b)
    run_basis(cb["b"], ctx, bundle=b)
    if order == 1:
        s2, _ = _eval_funcs(ctx, a, fa, r, z, phi, ok3)
        ctx.check(s1 == s2, "interference", lambda: "equilibrium A answers differently after equilibrium B was built and used: %s [A=%s B=%s]"
                  % (_first_diff(s1, s2), json.dumps(a.spec), json.dumps(b.spec)))
        _intact(ctx, objs1, "after B was built and used")
    run_scalar(ca["s"], ctx, bundle=a)          # A against the independent oracles after (order 2: only after) B was used
    run_vector(ca["v"], ctx, bundle=a)
    run_basis(ca["b"], ctx, bundle=a)
    # ---- REPEAT and X - Y - X on A: same call twice in a row; other profiles, more and fewer points in between; X again
    x1, ox1 = _eval_funcs(ctx, a, fa, r, z, phi, ok3, direct=False)
    x1b, _ = _eval_funcs(ctx, a, fa, r, z, phi, ok3, direct=False)
    ctx.check(x1 == x1b, "repeat", lambda: "the same mapped functions evaluated twice in a row differ: %s" % _first_diff(x1, x1b))
    y = case["Y"]
    fy, _ = _make_funcs(ctx, a, y["p"], float(y["out"]), (y["vt"], y["vp"], y["vn"]), None)
    rd, zd = _dense(ca["s"], a)
    big_r, big_z = np.concatenate([r, rd[:150]]), np.concatenate([z, zd[:150]])
    _eval_funcs(ctx, a, fy, big_r, big_z, np.zeros(len(big_r)), np.ones(len(big_r), dtype=bool) & (big_r > a.r[0] * (1 + 1e-9)) & (big_r < a.r[-1] * (1 - 1e-9)), direct=False)
    _eval_funcs(ctx, a, fy, r[:3], z[:3], phi[:3], ok3[:3], direct=False)
    fx2, _ = _make_funcs(ctx, a, xs["p"], xout, xv, xvout)        # X again: new profile objects, new mapped functions
    x2, _ = _eval_funcs(ctx, a, fx2, r, z, phi, ok3, direct=False)
    x3, _ = _eval_funcs(ctx, a, fa, r, z, phi, ok3, direct=False)  # and the functions made at the very beginning
    ctx.check(x1 == x2, "x-y-x", lambda: "map2d/map3d/map_vector2d/map_vector3d for profile X, then Y, then X again: %s [X=%s Y=%s]"
              % (_first_diff(x1, x2), json.dumps(xs["p"]), json.dumps(y["p"])))
    ctx.check(x1 == x3, "repeat", lambda: "the first mapped functions answer differently after other profiles were mapped and evaluated: %s" % _first_diff(x1, x3))
    _intact(ctx, ox1, "after Y was mapped and evaluated")
    ctx.label("repeat", "x-y-x")
    # ---- helper classes: two instances of each built first, then evaluated alternately, twice
    (ax, ay, az), (bx, by, bz) = case["fields"]
    pa, pb = [min(float(v), 1.0) for v in case["psin"]]
    fl_a, fl_b = (lambda r_, z_: Vector3D(ax, ay, az)), (lambda r_, z_: Vector3D(bx, by, bz))
    def make():
        return [(PoloidalFieldVector(fl_a), PoloidalFieldVector(fl_b)), (FluxSurfaceNormal(fl_a), FluxSurfaceNormal(fl_b)),
                (FluxCoordToCartesian(fl_a, lambda r_, z_: pa, built_x[1][1], built_x[2][1], built_x[3][1]),
                 FluxCoordToCartesian(fl_b, lambda r_, z_: pb, built_x[3][1], built_x[1][1], built_x[2][1])),
                (MagneticField(lambda r_, z_: pa, lambda r_, z_: ax, lambda r_, z_: az, lambda x_: ay, 1.0, 2.0, lambda r_, z_: 1.0),
                 MagneticField(lambda r_, z_: pb, lambda r_, z_: bx, lambda r_, z_: bz, lambda x_: by, 3.0, 4.0, lambda r_, z_: 0.0)),
                (EFITLCFSMask([[0, 0], [2, 0], [2, 1], [0, 1.0]], lambda r_, z_: pa), EFITLCFSMask([[0, 0], [1, 0], [1, 3], [0, 3.0]], lambda r_, z_: pb + 0.75))]

    def one(v):
        try:
            q = v(1.5, 0.25)
        except ZeroDivisionError:      # |B_pol|^2 underflow of the 1e-100 magic values, see run_basis
            return "ZeroDivisionError"
        return q if isinstance(q, float) else (q.x, q.y, q.z)
    with ctx.cut("helper classes"):
        alone = []                     # reference: every instance evaluated right after its construction, before the next one exists
        for k in range(5):
            pair = make()[k]
            alone.append((one(pair[0]), None))
        for k in range(5):
            pair = make()[k]
            alone[k] = (alone[k][0], one(pair[1]))
        inst = make()                  # all ten instances alive, evaluated alternately, twice
        passes = [[(one(i0), one(i1)) for i0, i1 in inst] for _ in range(2)]
    ctx.check(passes[0] == passes[1], "interference", lambda: "helper-class instances evaluated alternately give different values on the second pass: %s"
              % _first_diff(passes[0], passes[1]))
    ctx.check(passes[0] == alone, "interference", lambda: "helper-class instances that coexist differ from instances used alone: %s (fields %r, psi_n %r)"
              % (_first_diff(passes[0], alone), case["fields"], case["psin"]))
    ctx.label("helpers-interleaved")
    # ---- function-style entry points: X, Y, X
    if case["loaders"]:
        pts_e = [(2.0, 0.0), (2.3, 0.4), (1.3, -1.2), (1.9, -0.9)]
        pts_g = [(1.6, -0.1), (1.2, 0.5), (2.2, -1.5)]
        with ctx.cut("loaders"):
            e1 = example_equilibrium()
            v1 = [(e1.psi_normalised(*q), e1.inside_lcfs(*q), one_b(e1, q)) for q in pts_e]
            g = load_equilibrium()
            vg = [(g.psi_normalised(*q), g.inside_lcfs(*q), one_b(g, q)) for q in pts_g]
            e2 = example_equilibrium()
            v2 = [(e2.psi_normalised(*q), e2.inside_lcfs(*q), one_b(e2, q)) for q in pts_e]
            v1b = [(e1.psi_normalised(*q), e1.inside_lcfs(*q), one_b(e1, q)) for q in pts_e]
            vgb = [(g.psi_normalised(*q), g.inside_lcfs(*q), one_b(g, q)) for q in pts_g]
        ctx.check(v1 == v2 and v1 == v1b and vg == vgb and e1 is not e2, "x-y-x", lambda: "example_equilibrium(), load_equilibrium(), example_equilibrium(): "
                  "%r / %r / %r (first object again) ; generomak %r / %r" % (v1, v2, v1b, vg, vgb))
        ctx.label("loaders-x-y-x")
    ctx.nontrivial = False
    ctx.nt(canon(a.spec) != canon(b.spec))


def one_b(eq, q):
    v = eq.b_field(*q)
    return (v.x, v.y, v.z)


SUBCHECKS = {
    "scalar": Given(scalar_strategy, run_scalar, quick=480, thorough=16000),
    "basis": Given(basis_strategy, run_basis, quick=240, thorough=8000),
    "vector": Given(vector_strategy, run_vector, quick=240, thorough=8000),
    "api": Given(api_strategy, run_api, quick=120, thorough=3000),
    "interfere": Given(interfere_strategy, run_interfere, quick=48, thorough=1200),
}
