"""C09 - ionisation balance solves the steady-state equations and conserves particles / charge.

Oracle: exact steady state by the two-term recursion n_{z+1}/n_z = S_z / (alpha_{z+1} + (n_D/n_e) C_{z+1}), accumulated in
log space with numpy.longdouble and normalised.  The code under test solves a (Z+2)x(Z+1) least-squares system A x = b
(tridiagonal balance rows scaled by n_e, plus a row of ones, b = (0,..,0,n_e)) with scipy lsq_linear(bounds=(0, n_e)):
 * lsq_linear first takes the unbounded SVD least-squares solution and returns it if it lies inside the bounds.  For a
   consistent system its forward error is bounded by c(m) eps cond2(A) |x|, which is what the tolerance below uses;
 * otherwise (some component rounded below zero) a bounded trust-region iteration with termination tol=1e-10 takes over,
   for which no forward error bound exists (measured errors up to 0.7, single calls of > 10 s).
The main class therefore is: tol := 20 eps cond2(A) + 1e-13 <= 1e-6 and every exact fraction > tol (so the SVD solution is
certainly positive and returned).  Everything else belongs to the known finding C09-lsq-illconditioned; it is only ever run
in a child process under a hard time limit (sub-check `wide`).
"""
import contextlib
import io
import math
import multiprocessing
import os

import numpy as np
from hypothesis import strategies as st

from raysect.core.math.function.float import Function1D, Function2D, Interpolator1DArray, Interpolator2DArray
from raysect.core.math.function.float.function1d.autowrap import PythonFunction1D
from raysect.core.math.function.float.function2d.autowrap import PythonFunction2D

from cherab.core.atomic import AtomicData, IonisationRate, RecombinationRate, ThermalCXRate, lookup_element, lookup_isotope
import cherab.tools.plasmas.ionisation_balance as IB

from ..core import Given
from ..findings import is_open

ID = "C09"
SHARDS = {"quick": 8, "thorough": 16}

# Open findings whose input class is excluded while open.  VERIF_NO_EXCLUDE=<id>[,<id>] (or "all") switches an exclusion off
# by hand (to confirm a proposed fix on a scratch copy); it can only make the check stricter.
_NOEX = set(filter(None, os.environ.get("VERIF_NO_EXCLUDE", "").split(",")))


def _excluded(fid):
    return is_open(fid) and not (fid in _NOEX or "all" in _NOEX)


EXCL_TCX = _excluded("C09-tcx-donor-ignored")        # from_elementdensity / match_plasma_neutrality with donor density > 0
EXCL_LSQ = _excluded("C09-lsq-illconditioned")       # rate sets outside the main class (see module docstring)

EPS = float(np.finfo(float).eps)
CF = 20.0            # c(m): m = Z + 2 <= 20 rows
TOL_CAP = 1e-6
TOL_FLOOR = 1e-13
WIDE_LIMIT_S = float(os.environ.get("VERIF_C09_LIMIT", "10"))

RULE = ("Case = element Z (1..18, small Z favoured) x mock AtomicData whose ionisation S_z, recombination alpha_z and thermal-CX "
        "C_z rates are power laws 10^m (n_e/n0)^a (T_e/T0)^b with generated magnitudes m (spread budget 0-4 decades, "
        "n_e x smallest rate 1e-3..1e6 1/s; values on the extremes of the budget favoured) and log-slopes a, b x points "
        "(n_e 1e17-1e21, T_e 1-1e4 eV within half a decade of (n0, T0)) x CX donor (none / H0 / D0 / He0 / He1+, donor density 0 "
        "or 1e-3..10 n_e) x entry point and input representation (python scalar, 1-D / 2-D ndarray, Function1D / Function2D "
        "(python functions and raysect interpolators) + free variables, mixed per argument; free-variable grids are float arrays "
        "or integer-typed ones - np.arange, int32 / int64 arrays, a python int for a single point - with non-integer profile "
        "values; lists of python numbers are not generated: the code documents numpy arrays and reads a list as the (x, y) pair). "
        "match_plasma_neutrality: the other species carry 0-0.95 n_e of charge, and at a quarter of the points of a profile "
        "1.05-3 n_e (over-neutral: only densities >= 0 is demanded there, the full relations at the other points). A species given as a "
        "{charge: array | Function1D | Function2D} dictionary (match_plasma_neutrality, interpolators1d/2d_ and equilibrium_map3d_ "
        "variants) has its keys inserted in a drawn order - ascending, reversed, random permutation, neutral last - and must give the "
        "ndarray / ascending result (1e-12) with neutrality holding. Every ndarray argument of every entry point (n_e, T_e, n_D, element "
        "density, species densities incl. the charge axis; 1-D and 2-D) is handed over in a drawn layout holding the same values - C, "
        "Fortran, strided view of a larger buffer, reversed view, float32 (values rounded to float32 first; never n_e and n_D both, "
        "numpy would divide them in float32), int64 (T_e only), read-only - independently per argument or the same for all, a third of "
        "the repr variants all-ndarray; the oracles are unchanged and the caller's arrays must be unmodified afterwards. Every "
        "interpolators1d_* / interpolators2d_* / equilibrium_map3d_* wrapper is compared with the direct array call given the same "
        "donor arguments, and is required to have been hit with a donor that moves a fraction by > 1e-3. Each point is classified a priori "
        "from the oracle side: main class iff 20 eps cond2(A) + 1e-13 <= 1e-6 and min exact fraction above that tolerance; only "
        "main-class points are passed to the code in-process. Non-trivial = at least min(3, Z+1) charge states carry a fraction "
        "> 1e-6 and, when a donor with positive density is given, the donor moves some fraction by > 1e-3 (n_D C comparable to "
        "n_e alpha); distinct by case hash.")
ASSUMPTIONS = ["the rate objects returned by the mock AtomicData are evaluated by the code exactly as by the oracle (same Python expression)",
               "numpy.longdouble (64-bit mantissa) log-space recursion is exact to ~1e-17 relative per fraction",
               "the SVD least-squares forward error bound c(m) eps cond2(A) with c(m) = 20 >= m holds for numpy.linalg.lstsq "
               "(measured worst over 46000 solves: 1.7 eps cond2(A))",
               "cond2(A) is computed from the oracle's own copy of the documented matrix (balance rows x n_e, row of ones)"]
TOLERANCES = {
    "fractions vs recursion (main class)": "tol = 20 eps cond2(A) + 1e-13 absolute per fraction; cases with tol > 1e-6 are outside the main class. 20 eps cond2: SVD least-squares forward bound c(m) eps cond2 with c = 20 >= m rows (measured worst 1.7 eps cond2 for cond2 > 1e3 over 46000 solves); 1e-13: cond-independent floor (forming the matrix, x n_e / n_e, bidiagonalisation of rows of unequal scale), measured worst 1.9e-14 over 3e5 points with cond2 < 10",
    "sum of fractions": "(Z+1) tol",
    "range": "[-1e-12, 1 + 1e-12]",
    "pairwise balance residual |f_z S_z - f_{z+1} R_{z+1}| / max flux": "tol (S_z + R_{z+1}) / max_z(f_z S_z): propagation of the fraction tolerance",
    "from_elementdensity": "n_el tol per charge state, sum: n_el (Z+1) tol",
    "match_plasma_neutrality densities": "1.5 E tol (1/zm + f_z Z(Z+1)/(2 zm^2)), E = n_e - charge of the other species, zm = mean charge (first-order propagation; points with zm < 10 tol Z(Z+1)/2 skipped)",
    "neutrality sum": "1e-11 n_e (same fractions on both sides, rounding of <= 40 terms)",
    "representation independence / interpolator nodes": "1e-12 x max|profile| (identical point-wise arithmetic; linear interpolation at a node rounds once)",
    "map3d": "1e-9 x max|profile| against a raysect interpolator of the directly computed profile evaluated at psi_n(R, Z)",
    "wide class": "fixed 1e-6 absolute (the cap of the main class), run in a child process, %g s limit, time-out = inconclusive" % WIDE_LIMIT_S,
}
REQUIRED_LABELS = ["fractional:donor", "fractional:nodonor", "fractional:nt", "densities:neutrality", "densities:elementdensity",
                   "densities:over-neutral", "repr:shape:0d", "repr:shape:1d", "repr:shape:2d", "repr:interp1d", "repr:interp2d",
                   "repr:fv:arange", "repr:fv:int32", "repr:fv:int64"] + \
                  ["repr:donor:interpolators%s_%s" % (d, w) for d in ("1d", "2d")
                   for w in ("fractional", "from_elementdensity", "match_plasma_neutrality")] + \
                  ["map3d:donor:equilibrium_map3d_%s" % w for w in ("fractional", "from_elementdensity", "match_plasma_neutrality")] + \
                  ["densities:dict-nonasc:match_plasma_neutrality", "repr:dict-nonasc:match_plasma_neutrality",
                   "repr:dict-nonasc:interpolators1d_match_plasma_neutrality", "repr:dict-nonasc:interpolators2d_match_plasma_neutrality",
                   "map3d:dict-nonasc:equilibrium_map3d_match_plasma_neutrality"] + \
                  ["%s:layout:%s" % (sub, k) for sub in ("fractional", "densities", "repr") for k in ("strided", "reversed", "f32", "int", "readonly")] + \
                  ["densities:layout-nd:F", "repr:layout-nd:F", "repr:layout-nd:strided", "repr:layout-nd:reversed", "repr:layout2d:no-C-profile",
                   "fractional:layout-mode:same", "fractional:layout-mode:indep", "densities:layout-mode:same", "densities:layout-mode:indep",
                   "repr:layout-mode:same", "repr:layout-mode:indep"]

DONORS = {"H0": ("hydrogen", 0, False), "D0": ("deuterium", 0, True), "He0": ("helium", 0, False), "He1": ("helium", 1, False)}

_stats = {"err_over_tol": {"<1e-3": 0, "<1e-2": 0, "<0.1": 0, "<0.2": 0, "<0.3": 0, "<0.5": 0, "<1": 0, ">=1": 0},
          "points": {"main": 0, "outside_main": 0}}


def shard_info():
    return {"c09_err_over_tol": dict(_stats["err_over_tol"]), "c09_points": dict(_stats["points"])}


# ----------------------------------------------------------------------------------------------- mock atomic data
def _rate_value(p, ne0, te0, ne, te):
    return 10.0 ** p[0] * (ne / ne0) ** p[1] * (te / te0) ** p[2]


class _Ion(IonisationRate):
    def __init__(self, p, ne0, te0):
        self.p, self.ne0, self.te0 = p, ne0, te0

    def evaluate(self, density, temperature):
        return _rate_value(self.p, self.ne0, self.te0, density, temperature)


class _Rec(RecombinationRate):
    def __init__(self, p, ne0, te0):
        self.p, self.ne0, self.te0 = p, ne0, te0

    def evaluate(self, density, temperature):
        return _rate_value(self.p, self.ne0, self.te0, density, temperature)


class _Tcx(ThermalCXRate):
    def __init__(self, p, ne0, te0):
        self.p, self.ne0, self.te0 = p, ne0, te0

    def evaluate(self, density, temperature):
        return _rate_value(self.p, self.ne0, self.te0, density, temperature)


class MockData(AtomicData):
    """Rates of one element (and one CX donor / donor charge); any other request is an error of the caller."""

    def __init__(self, rates, element, donor=None, donor_charge=0):
        self.r, self.element, self.donor, self.donor_charge = rates, element, donor, donor_charge
        self.z = element.atomic_number

    def ionisation_rate(self, ion, charge):
        if ion is not self.element or not 0 <= charge < self.z:
            raise LookupError("ionisation_rate(%r, %r) requested for a Z=%d balance" % (ion, charge, self.z))
        return _Ion(self.r["S"][charge], self.r["ne0"], self.r["te0"])

    def recombination_rate(self, ion, charge):
        if ion is not self.element or not 1 <= charge <= self.z:
            raise LookupError("recombination_rate(%r, %r) requested for a Z=%d balance" % (ion, charge, self.z))
        return _Rec(self.r["A"][charge - 1], self.r["ne0"], self.r["te0"])

    def thermal_cx_rate(self, donor_ion, donor_charge, receiver_ion, receiver_charge):
        if self.donor is None or donor_ion is not self.donor or donor_charge != self.donor_charge \
                or receiver_ion is not self.element or not 1 <= receiver_charge <= self.z:
            raise LookupError("thermal_cx_rate(%r, %r, %r, %r) requested; the case has donor %r charge %r"
                              % (donor_ion, donor_charge, receiver_ion, receiver_charge, self.donor, self.donor_charge))
        return _Tcx(self.r["C"][receiver_charge - 1], self.r["ne0"], self.r["te0"])


def _donor(case):
    d = case.get("donor")
    if not d:
        return None, 0
    name, q, iso = DONORS[d]
    return (lookup_isotope(name) if iso else lookup_element(name)), q


@contextlib.contextmanager
def _quiet():
    """from_elementdensity prints a warning per point when the element alone exceeds n_e: keep the shard logs small."""
    with contextlib.redirect_stdout(io.StringIO()):
        yield


# ----------------------------------------------------------------------------------------------- oracle
def _rates_at(r, z, ne, te, with_cx):
    s = [_rate_value(r["S"][i], r["ne0"], r["te0"], ne, te) for i in range(z)]
    a = [_rate_value(r["A"][i], r["ne0"], r["te0"], ne, te) for i in range(z)]
    c = [_rate_value(r["C"][i], r["ne0"], r["te0"], ne, te) for i in range(z)] if with_cx else [0.0] * z
    return s, a, c


class Point:
    """Exact steady state at one (n_e, T_e, n_D) and the a-priori error bound of the least-squares scheme."""

    def __init__(self, r, z, ne, te, nd, with_cx):
        ld = np.longdouble
        s, a, c = _rates_at(r, z, ne, te, with_cx)
        ratio = (ld(nd) / ld(ne)) if with_cx else ld(0)
        down = [ld(a[i]) + ratio * ld(c[i]) for i in range(z)]            # R_{i+1}
        lg = np.zeros(z + 1, dtype=ld)
        for i in range(z):
            lg[i + 1] = lg[i] + np.log(ld(s[i])) - np.log(down[i])
        lg -= lg.max()
        w = np.exp(lg)
        f = w / w.sum()
        self.z, self.ne = z, ne
        self.f = f.astype(float)
        self.fmin = float(f.min())
        self.s = np.array(s)
        self.down = np.array([float(x) for x in down])
        self.zmean = float(sum(ld(i) * f[i] for i in range(z + 1)))
        rmax = max(max(s), float(max(down)))
        rmin = min(min(s), float(min(down)))
        self.spread = math.log10(rmax / rmin)
        # the documented matrix: balance rows x n_e, then a row of ones
        m = np.zeros((z + 2, z + 1))
        for i in range(z):
            m[i, i] -= s[i]
            m[i + 1, i] += s[i]
            m[i, i + 1] += self.down[i]
            m[i + 1, i + 1] -= self.down[i]
        m[:z + 1] *= ne
        m[z + 1, :] = 1.0
        ok = bool(np.all(np.isfinite(m)))
        if ok:
            sv = np.linalg.svd(m, compute_uv=False)
            ok = sv[-1] > 0
        self.cond = float(sv[0] / sv[-1]) if ok else float("inf")
        self.tol = CF * EPS * self.cond + TOL_FLOOR
        self.main = self.tol <= TOL_CAP and self.fmin > self.tol
        _stats["points"]["main" if self.main else "outside_main"] += 1

    def populated(self):
        return int(np.sum(self.f > 1e-6))


def _bin(x):
    for lim in ("1e-3", "1e-2", "0.1", "0.2", "0.3", "0.5", "1"):
        if x < float(lim):
            return "<" + lim
    return ">=1"


def _check_fractions(ctx, got, pts, what):
    """got: dict {charge: array(npts)} from the code; pts: list of Point (all main class)."""
    z = pts[0].z
    ctx.check(isinstance(got, dict) and sorted(got) == list(range(z + 1)), what + ":keys",
              lambda: "result keys %r, expected charges 0..%d" % (sorted(got) if isinstance(got, dict) else type(got), z))
    arr = np.array([np.asarray(got[q], dtype=float).reshape(-1) for q in range(z + 1)])
    ctx.check(arr.shape == (z + 1, len(pts)), what + ":shape", lambda: "result shape %r for %d points" % (arr.shape, len(pts)))
    for k, p in enumerate(pts):
        f = arr[:, k]
        ctx.check(bool(np.all(np.isfinite(f))), what + ":finite", lambda: "non-finite fraction %r" % f.tolist())
        ctx.check(f.min() >= -1e-12 and f.max() <= 1 + 1e-12, what + ":range", lambda: "fraction outside [0,1]: %r" % f.tolist())
        err = float(np.max(np.abs(f - p.f)))
        _stats["err_over_tol"][_bin(err / p.tol)] += 1
        ctx.check(err <= p.tol, what + ":recursion",
                  lambda: "max |f - exact| = %.3g > tol %.3g (cond %.3g) at n_e=%r; got %r exact %r"
                          % (err, p.tol, p.cond, p.ne, f.tolist(), p.f.tolist()))
        ctx.check(abs(f.sum() - 1.0) <= (z + 1) * p.tol, what + ":sum", lambda: "sum of fractions = %r" % f.sum())
        up = f[:-1] * p.s
        dn = f[1:] * p.down
        fmax = float(np.max(p.f[:-1] * p.s))
        res = np.abs(up - dn) / fmax
        lim = p.tol * (p.s + p.down) / fmax
        ctx.check(bool(np.all(res <= lim)), what + ":balance",
                  lambda: "pair balance residual / max flux = %r > %r" % (res.tolist(), lim.tolist()))


# ----------------------------------------------------------------------------------------------- array layouts
# Every ndarray argument is handed over in a drawn memory layout / dtype / writeability holding the SAME values, so all oracles
# apply unchanged.  f32 / int need values representable in that dtype: _canon rounds them first (part of building the case's values).
LAYOUTS = ["C", "F", "strided", "reversed", "f32", "int", "readonly"]
ARGS = ["ne", "te", "nd", "nel", "sp"]


@st.composite
def _layouts(draw):
    if draw(st.booleans()):
        k = draw(st.sampled_from(LAYOUTS))
        return dict({a: k for a in ARGS}, mode="same")
    return dict({a: draw(st.sampled_from(LAYOUTS)) for a in ARGS}, mode="indep")


def _kinds(holder):
    lay = holder.get("layout") or {}
    k = {a: lay.get(a, "C") for a in ARGS}
    for a in ARGS:
        if k[a] == "int" and a != "te":
            k[a] = "C"                  # densities of 1e17-1e21 are not meaningful as integers (overflow int64)
    if k["ne"] == "f32" and k["nd"] == "f32":
        k["nd"] = "C"                   # numpy evaluates n_D / n_e in float32 when BOTH are float32 (6e-8): not the code's arithmetic
    return k


def _canon(a, kind):
    a = np.array(a, dtype=float)
    if kind == "f32":
        return a.astype(np.float32).astype(float)
    if kind == "int":
        return np.maximum(1.0, np.rint(a))
    return a


def _lay(a, kind, ctx=None, keep=None, name=""):
    """array with the values of `a` (already _canon-ed for this kind) in the requested layout"""
    a = np.ascontiguousarray(np.asarray(a, dtype=float))
    rev = (slice(None, None, -1),) * a.ndim
    if kind == "F" and a.ndim >= 2:
        out = np.ascontiguousarray(a.T).T
    elif kind == "strided":
        gap = 0.5 * float(np.max(a)) if a.size and np.max(a) > 0 else 1.0       # finite, positive, wrong
        buf = np.full(tuple(2 * n for n in a.shape), gap)
        buf[(slice(None, None, 2),) * a.ndim] = a
        out = buf[(slice(None, None, 2),) * a.ndim]
    elif kind == "reversed":
        out = np.ascontiguousarray(a[rev])[rev]
    elif kind == "f32" and np.array_equal(a.astype(np.float32).astype(float), a):
        out = a.astype(np.float32)
    elif kind == "int" and np.array_equal(np.rint(a), a):
        out = a.astype(np.int64)
    elif kind == "readonly":
        out = a.copy()
        out.flags.writeable = False
    else:
        kind, out = "C", a.copy()
    if ctx is not None:
        ctx.label("layout:" + kind)
        if a.ndim >= 2 and kind != "C":
            ctx.label("layout-nd:" + kind)
    if keep is not None:
        keep.append((name, out, out.copy(), out.strides, out.flags.writeable))
    return out


def _unchanged(ctx, keep):
    """the caller's arrays are exactly as they were handed over"""
    for name, arr, snap, strides, wr in keep:
        ctx.check(arr.dtype == snap.dtype and arr.shape == snap.shape and arr.strides == strides and arr.flags.writeable == wr
                  and np.array_equal(arr, snap), "caller-array-unchanged",
                  lambda: "argument %s was modified by the call: %r -> %r" % (name, snap.tolist(), arr.tolist()))


# ----------------------------------------------------------------------------------------------- strategies
_unit = st.one_of(st.floats(0.0, 1.0), st.sampled_from([0.0, 1.0]))


@st.composite
def _rates(draw, z, with_c, dmax=4.0, xlo=-3.0, xhi=6.0):
    ne0 = 10.0 ** draw(st.floats(17.5, 20.5))
    te0 = 10.0 ** draw(st.floats(0.5, 3.5))
    d = dmax * draw(st.sampled_from([0.1, 0.25, 0.5, 0.75, 1.0, 1.0])) * draw(st.floats(0.8, 1.0))
    x0 = draw(st.floats(xlo, max(xlo, xhi - d)))
    base = x0 - math.log10(ne0)
    out = {"ne0": ne0, "te0": te0}
    for fam, b0 in (("S", 1.0), ("A", -0.7), ("C", 0.3)):
        if fam == "C" and not with_c:
            continue
        a = draw(st.floats(-0.3, 0.3))
        b = b0 * draw(st.floats(0.0, 1.5))
        out[fam] = [[base + draw(_unit) * d, a, b + draw(st.sampled_from([-0.5, 0.0, 0.0, 0.5]))] for _ in range(z)]
    return out


_zs = st.one_of(st.integers(1, 3), st.integers(2, 8), st.integers(6, 18))


@st.composite
def _points(draw, rates, n, donor):
    pts = []
    for _ in range(n):
        ne = rates["ne0"] * 10.0 ** draw(st.floats(-0.5, 0.5))
        te = rates["te0"] * 10.0 ** draw(st.floats(-0.5, 0.5))
        nd = 0.0
        if donor:
            nd = draw(st.one_of(st.just(0.0), st.floats(-3.0, 1.0).map(lambda e: 10.0 ** e), st.floats(-1.0, 1.0).map(lambda e: 10.0 ** e))) * ne
        pts.append([ne, te, nd])
    return pts


@st.composite
def strat_fractional(draw):
    z = draw(_zs)
    donor = draw(st.sampled_from([None, "H0", "H0", "D0", "He0", "He1"]))
    rates = draw(_rates(z, donor is not None))
    n = draw(st.integers(1, 4))
    return {"Z": z, "donor": donor, "rates": rates, "pts": draw(_points(rates, n, donor)),
            "scalar": draw(st.booleans()) if n == 1 else False, "layout": draw(_layouts())}


def _labels(ctx, z, pts, donor_on):
    ctx.label("Z:1-2" if z <= 2 else "Z:3-8" if z <= 8 else "Z:9-18")
    sp = max(p.spread for p in pts)
    ctx.label("spread:%d-%d" % (int(sp), int(sp) + 1) if sp < 6 else "spread:>=6")
    ctx.label("donor" if donor_on else "nodonor")


def _nontrivial(pts_cx, pts_plain, donor_on):
    """RULE: >= min(3, Z+1) populated charge states; with a donor: it moves a fraction by > 1e-3 at such a point."""
    for k, p in enumerate(pts_cx):
        if p.populated() >= min(3, p.z + 1):
            if not donor_on or float(np.max(np.abs(p.f - pts_plain[k].f))) > 1e-3:
                return True
    return False


def _canon_pts(case, kinds):
    """the case's points with the values rounded to what the drawn dtype of each argument can hold"""
    pts = np.array(case["pts"], dtype=float).reshape(-1, 3)
    cols = [_canon(pts[:, j], kinds[a]) for j, a in enumerate(("ne", "te", "nd"))]
    return [[float(cols[0][k]), float(cols[1][k]), float(cols[2][k])] for k in range(len(pts))]


def _split(case, with_cx, pts=None):
    z, r = case["Z"], case["rates"]
    return [Point(r, z, p[0], p[1], p[2], with_cx) for p in (case["pts"] if pts is None else pts)]


def _skip_label(ctx, n):
    if n:
        ctx.label("excluded_known" if EXCL_LSQ else "outside-main-skipped")


# ----------------------------------------------------------------------------------------------- sub-check: fractional
def run_fractional(case, ctx):
    z = case["Z"]
    el = lookup_element(z)
    donor, q = _donor(case)
    data = MockData(case["rates"], el, donor, q)
    kinds, keep = _kinds(case), []
    raw = _canon_pts(case, kinds)
    ctx.label("layout-mode:" + (case.get("layout") or {}).get("mode", "none"))
    plain = _split(case, False, raw)
    cx = _split(case, True, raw) if donor is not None else plain
    donor_on = donor is not None and any(p[2] > 0 for p in raw)
    arr = lambda j, a, idx: _lay([raw[k][j] for k in idx], kinds[a], ctx, keep, a)
    # --- with the donor
    if donor is not None:
        idx = [k for k in range(len(raw)) if cx[k].main]
        _skip_label(ctx, len(raw) - len(idx))
        if idx:
            _labels(ctx, z, [cx[k] for k in idx], donor_on)
            if case.get("scalar") and len(idx) == 1:
                args = (raw[idx[0]][0], raw[idx[0]][1], donor, raw[idx[0]][2], q)
                ctx.label("scalar")
            else:
                args = (arr(0, "ne", idx), arr(1, "te", idx), donor, arr(2, "nd", idx), q)
            with ctx.cut("fractional_abundance(donor)"):
                got = IB.fractional_abundance(data, el, *args)
            _check_fractions(ctx, got, [cx[k] for k in idx], "donor")
            _unchanged(ctx, keep)
            if _nontrivial([cx[k] for k in idx], [plain[k] for k in idx], donor_on):
                ctx.nt()
                ctx.label("nt")
    # --- without a donor (same rates, the CX table must not be touched)
    idx = [k for k in range(len(raw)) if plain[k].main]
    _skip_label(ctx, len(raw) - len(idx))
    if idx:
        if donor is None:
            _labels(ctx, z, [plain[k] for k in idx], False)
        if case.get("scalar") and len(idx) == 1:
            args = (raw[idx[0]][0], raw[idx[0]][1])
        else:
            args = (arr(0, "ne", idx), arr(1, "te", idx))
        with ctx.cut("fractional_abundance(no donor)"):
            got = IB.fractional_abundance(MockData(case["rates"], el), el, *args)
        _check_fractions(ctx, got, [plain[k] for k in idx], "nodonor")
        _unchanged(ctx, keep)
        if (len(idx) >= 2 and len(args) == 2 and all(isinstance(a_, np.ndarray) and a_.ndim == 1 and a_.flags.writeable for a_ in args)
                and raw[idx[0]][:2] != raw[idx[-1]][:2]):
            # a scan on the caller's own arrays: the same n_e / T_e array objects refilled in place (here: the points in reverse order)
            # and handed to the same data source again - the answer follows the arrays' present content
            src = MockData(case["rates"], el)
            with ctx.cut("fractional_abundance(no donor)"):
                IB.fractional_abundance(src, el, *args)
                for a_ in args:
                    a_[...] = a_[::-1].copy()
                got2 = IB.fractional_abundance(src, el, *args)
            _check_fractions(ctx, got2, [plain[k] for k in reversed(idx)], "nodonor")
            for a_ in args:
                a_[...] = a_[::-1].copy()
            _unchanged(ctx, keep)
            ctx.label("inputs-refilled-in-place")
        if donor is None and _nontrivial([plain[k] for k in idx], [plain[k] for k in idx], False):
            ctx.nt()
            ctx.label("nt")


# ----------------------------------------------------------------------------------------------- sub-check: densities
ORDERS = ["asc", "rev", "perm", "neutral_last"]
_order_st = st.fixed_dictionaries({"kind": st.sampled_from(ORDERS), "perm": st.permutations(list(range(5)))})


def _key_order(n, order):
    """insertion order of the charge keys 0..n-1 of a species dictionary"""
    kind = (order or {}).get("kind", "asc")
    if kind == "rev":
        return list(range(n - 1, -1, -1))
    if kind == "perm":
        return [k for k in order["perm"] if k < n]
    if kind == "neutral_last":
        return list(range(1, n)) + [0]
    return list(range(n))


def _as_dict(values, order, ctx, entry):
    """{charge: values[charge]} inserted in the drawn key order; labels non-ascending dictionaries per entry point"""
    keys = _key_order(len(values), order)
    if keys != sorted(keys):
        for e in entry:
            ctx.label("dict-nonasc:" + e)
    return {c: values[c] for c in keys}


@st.composite
def _species(draw, nsp):
    """Other species as weights w[s][q] (density = w n_e); total charge sum_s sum_q q w = qfrac <= 0.95."""
    if nsp == 0:
        return []
    qfrac = draw(st.one_of(st.just(0.0), st.floats(0.0, 0.95)))
    out = []
    for s in range(nsp):
        zs = draw(st.integers(1, 4))
        u = [draw(st.one_of(st.just(0.0), st.floats(0.0, 1.0))) for _ in range(zs + 1)]
        tot = sum(k * u[k] for k in range(zs + 1))
        share = qfrac / nsp
        if tot > 0:
            w = [u[0] * 0.1] + [u[k] * share / tot for k in range(1, zs + 1)]
        else:
            w = [u[0] * 0.1] + [0.0] * zs
        out.append(w)
    return out


@st.composite
def strat_densities(draw):
    z = draw(_zs)
    donor = draw(st.sampled_from([None, "H0", "H0", "D0", "He0", "He1"]))
    rates = draw(_rates(z, donor is not None))
    n = draw(st.integers(1, 3))
    pts = draw(_points(rates, n, donor))
    case = {"Z": z, "donor": donor, "rates": rates, "pts": pts,
            "nel": [draw(st.floats(-8.0, 0.3)) for _ in range(n)],          # log10(n_el / n_e)
            "species": draw(_species(draw(st.integers(0, 2)))),
            "spec_as_dict": draw(st.booleans()), "sp_order": draw(_order_st), "layout": draw(_layouts()),
            "scalar": draw(st.booleans()) if n == 1 else False}
    # per-point multiplier of the other species' densities: 1, or such that they carry 1.05-3 x the charge n_e (over-neutral
    # point: neutrality cannot hold, the bulk is documented to be clamped to zero there)
    qfrac = sum(c * w[c] for w in case["species"] for c in range(len(w)))
    case["qmul"] = [(draw(st.floats(1.05, 3.0)) / qfrac) if (qfrac > 1e-3 and draw(st.integers(0, 3)) == 0) else 1.0 for _ in range(n)]
    if EXCL_TCX and donor is not None and any(p[2] > 0 for p in pts):
        case["excluded_known"] = True       # agreement with the recursion is not asserted for these (conservation still is)
    return case


def run_densities(case, ctx):
    z = case["Z"]
    el = lookup_element(z)
    donor, q = _donor(case)
    data = MockData(case["rates"], el, donor, q)
    kinds, keep = _kinds(case), []
    raw = _canon_pts(case, kinds)
    ctx.label("layout-mode:" + (case.get("layout") or {}).get("mode", "none"))
    cx = _split(case, donor is not None, raw)
    plain = _split(case, False, raw) if donor is not None else cx
    # the buggy tree solves the donor-free system: both systems must be main class to call in-process safely
    idx = [k for k in range(len(raw)) if cx[k].main and plain[k].main]
    _skip_label(ctx, len(raw) - len(idx))
    if not idx:
        return
    pts = [cx[k] for k in idx]
    donor_on = donor is not None and any(raw[k][2] > 0 for k in idx)
    skip_agree = bool(case.get("excluded_known")) and donor_on
    if case.get("excluded_known"):
        ctx.label("excluded_known")
    _labels(ctx, z, pts, donor_on)
    ne = np.array([raw[k][0] for k in idx])
    te = np.array([raw[k][1] for k in idx])
    nd = np.array([raw[k][2] for k in idx])
    nel = _canon([raw[k][0] * 10.0 ** case["nel"][k] for k in idx], kinds["nel"])
    scalar = bool(case.get("scalar")) and len(idx) == 1
    if scalar:
        ctx.label("scalar")
    # what is handed to the code: python floats, or arrays in the drawn layouts (values as in ne / te / nd / nel)
    a_ne, a_te, a_nd, a_nel = [float(v[0]) if scalar else _lay(v, kinds[a], ctx, keep, a)
                               for v, a in ((ne, "ne"), (te, "te"), (nd, "nd"), (nel, "nel"))]
    dargs = (donor, a_nd, q) if donor is not None else ()

    # --- from_elementdensity
    ctx.label("elementdensity")
    with ctx.cut("from_elementdensity"), _quiet():
        got = IB.from_elementdensity(data, el, a_nel, a_ne, a_te, *dargs)
    ctx.check(isinstance(got, dict) and sorted(got) == list(range(z + 1)), "elementdensity:keys", lambda: "keys %r" % (sorted(got),))
    arr = np.array([np.asarray(got[c], dtype=float).reshape(-1) for c in range(z + 1)])
    ctx.check(arr.shape == (z + 1, len(idx)), "elementdensity:shape", lambda: "shape %r" % (arr.shape,))
    for k, p in enumerate(pts):
        d = arr[:, k]
        ctx.check(bool(np.all(np.isfinite(d))) and d.min() >= -1e-12 * nel[k], "elementdensity:nonneg", lambda: "densities %r" % d.tolist())
        ctx.check(abs(d.sum() - nel[k]) <= (z + 1) * p.tol * nel[k], "elementdensity:sum",
                  lambda: "sum of charge-state densities %r != element density %r" % (d.sum(), nel[k]))
        if not skip_agree:
            err = float(np.max(np.abs(d / nel[k] - p.f)))
            ctx.check(err <= p.tol, "elementdensity:fractions",
                      lambda: "densities / n_el differ from the exact fractions%s by %.3g > %.3g: got %r exact %r"
                              % (" (with donor)" if donor_on else "", err, p.tol, (d / nel[k]).tolist(), p.f.tolist()))

    # --- match_plasma_neutrality
    ctx.label("neutrality")
    spec_w = case["species"]
    qmul = [case.get("qmul", [1.0] * len(raw))[k] for k in idx]
    species, qtot = [], np.zeros(len(idx))
    for w in spec_w:
        dens = _canon([[w[c] * qmul[k] * ne[k] for k in range(len(idx))] for c in range(len(w))], kinds["sp"])
        for c in range(len(w)):
            qtot = qtot + c * dens[c]
        if case.get("spec_as_dict"):
            species.append(_as_dict([_lay(dens[c], kinds["sp"], ctx, keep, "species[%d]" % c) for c in range(len(w))],
                                    case.get("sp_order"), ctx, ["match_plasma_neutrality"]))
        else:
            species.append(_lay(dens, kinds["sp"], ctx, keep, "species"))      # incl. the charge-state axis
    with ctx.cut("match_plasma_neutrality"), _quiet():
        got = IB.match_plasma_neutrality(data, el, species, a_ne, a_te, *dargs)
    _unchanged(ctx, keep)
    ctx.check(isinstance(got, dict) and sorted(got) == list(range(z + 1)), "neutrality:keys", lambda: "keys %r" % (sorted(got),))
    arr = np.array([np.asarray(got[c], dtype=float).reshape(-1) for c in range(z + 1)])
    ctx.check(arr.shape == (z + 1, len(idx)), "neutrality:shape", lambda: "shape %r" % (arr.shape,))
    zz = z * (z + 1) / 2.0
    for k, p in enumerate(pts):
        d = arr[:, k]
        ctx.check(bool(np.all(np.isfinite(d))) and d.min() >= 0.0, "neutrality:nonneg",
                  lambda: "densities %r (other species carry %.3g n_e)" % (d.tolist(), qtot[k] / ne[k]))
        if qtot[k] > ne[k]:
            ctx.label("over-neutral")       # generated at >= 1.05 n_e: only non-negativity can hold
            continue
        ref = plain[idx[k]] if skip_agree else p          # only for the first-order validity test
        if not min(p.zmean, ref.zmean) > 10 * max(p.tol, ref.tol) * zz:
            ctx.label("zmean-tiny-skipped")
            continue
        e = ne[k] - qtot[k]
        charge = float(sum(c * d[c] for c in range(z + 1)))
        ctx.check(abs(charge + qtot[k] - ne[k]) <= 1e-11 * ne[k], "neutrality:charge",
                  lambda: "sum_z z n_z = %r plus other species %r != n_e %r" % (charge, qtot[k], ne[k]))
        if not skip_agree:
            want = p.f * e / p.zmean
            lim = 1.5 * e * p.tol * (1.0 / p.zmean + p.f * zz / p.zmean ** 2) + 1e-300
            ctx.check(bool(np.all(np.abs(d - want) <= lim)), "neutrality:fractions",
                      lambda: "densities differ from exact fractions x (n_e - Q)/<z>%s: got %r want %r"
                              % (" (with donor)" if donor_on else "", d.tolist(), want.tolist()))
    if not skip_agree and _nontrivial(pts, [plain[k] for k in idx], donor_on):
        ctx.nt()
        ctx.label("nt")


# ----------------------------------------------------------------------------------------------- sub-check: repr
def _prof(spec, x, y=0.0):
    """positive analytic profile v0 exp(c1 (x - x0) + c2 (y - y0)); 'zero' for an absent donor density"""
    if spec["k"] == "zero":
        return 0.0
    return spec["v0"] * math.exp(spec["c1"] * (float(x) - float(spec["x0"])) + spec["c2"] * (float(y) - float(spec["y0"]))) \
        * spec.get("mul", 1.0)


def _mkfn(spec, dim, kind, fv):
    """Function object for a profile: python function or raysect interpolator through the values at the free variable."""
    if dim == 1:
        if kind == "interp" and len(fv[0]) >= 2:
            vals = np.array([_prof(spec, x) for x in fv[0]])
            return Interpolator1DArray(np.array(fv[0], dtype=float), vals, "linear", "none", 0)
        return PythonFunction1D(lambda x: _prof(spec, x))
    if kind == "interp" and len(fv[0]) >= 2 and len(fv[1]) >= 2:
        vals = np.array([[_prof(spec, x, y) for y in fv[1]] for x in fv[0]])
        return Interpolator2DArray(np.array(fv[0], dtype=float), np.array(fv[1], dtype=float), vals, "linear", "none", 0, 0)
    return PythonFunction2D(lambda x, y: _prof(spec, x, y))


@st.composite
def _axis(draw, n):
    x0 = draw(st.floats(-2.0, 2.0))
    steps = [draw(st.floats(0.05, 1.0)) for _ in range(n - 1)]
    xs = [x0]
    for s in steps:
        xs.append(xs[-1] + s)
    return xs


@st.composite
def _axis_int(draw, n, unit_step):
    """strictly increasing integer grid (np.arange-like when unit_step)"""
    xs = [draw(st.integers(-3, 3))]
    for _ in range(n - 1):
        xs.append(xs[-1] + (1 if unit_step else draw(st.integers(1, 3))))
    return xs


FV_DTYPES = {"float": float, "arange": None, "int32": np.int32, "int64": np.int64}


def _fv_array(a, fvtype):
    """the free-variable object handed to the code: float array, or an integer-typed array holding the same grid"""
    if fvtype == "arange":
        return np.arange(int(a[0]), int(a[0]) + len(a))
    return np.array(a, dtype=FV_DTYPES[fvtype])


@st.composite
def strat_repr(draw):
    shape = draw(st.sampled_from(["0d", "1d", "1d", "2d", "2d"]))
    fvtype = draw(st.sampled_from(["float", "float", "arange", "int32", "int64"]))
    z = draw(st.one_of(st.integers(1, 4), st.integers(1, 10)))
    donor = draw(st.sampled_from([None, "H0", "D0", "He1"]))
    rates = draw(_rates(z, donor is not None, dmax=2.5, xhi=4.0))
    ax = _axis if fvtype == "float" else (lambda n: _axis_int(n, fvtype == "arange"))
    if shape == "0d":
        fv = [[draw(st.floats(-2.0, 2.0)) if fvtype == "float" else draw(st.integers(-3, 3))]]
    elif shape == "1d":
        fv = [draw(ax(draw(st.integers(2, 5))))]
    else:
        fv = [draw(ax(draw(st.integers(2, 4)))), draw(ax(draw(st.integers(2, 3))))]
    ext = [max(a[-1] - a[0], 1e-3) for a in fv] + [1.0]

    def prof(v0, amp):
        # total variation over the grid <= amp decades per axis
        return {"k": "exp", "v0": v0, "x0": fv[0][0], "y0": fv[1][0] if len(fv) > 1 else 0.0,
                "c1": draw(st.floats(-amp, amp)) * math.log(10.0) / ext[0],
                "c2": (draw(st.floats(-amp, amp)) * math.log(10.0) / ext[1]) if len(fv) > 1 else 0.0}
    ne = prof(rates["ne0"], 0.4)
    te = prof(rates["te0"], 0.4)
    nd = {"k": "zero"}
    if donor is not None and draw(st.integers(0, 4)) > 0:
        nd = prof(rates["ne0"] * 10.0 ** draw(st.floats(-2.0, 0.7)), 0.5)
    nel = prof(rates["ne0"] * 10.0 ** draw(st.floats(-6.0, -1.0)), 1.0)
    species = []
    for w in draw(_species(draw(st.integers(0, 2)))):
        species.append([dict(ne, mul=wc) for wc in w])
    kinds = ["arr", "py", "interp"] if shape != "0d" else ["arr", "py"]
    nvar = draw(st.integers(1, 3))
    variants = []
    for _ in range(nvar):
        kk = ["arr"] if draw(st.integers(0, 2)) == 0 else kinds         # a third of the variants: every argument an ndarray
        variants.append({"ne": draw(st.sampled_from(kk)), "te": draw(st.sampled_from(kk)), "nd": draw(st.sampled_from(kk)),
                         "nel": draw(st.sampled_from(kk)), "sp": draw(st.sampled_from(kk + ["arrdict"])),
                         "fv": draw(st.sampled_from(["tuple", "list"])), "order": draw(_order_st), "layout": draw(_layouts())})
    return {"Z": z, "donor": donor, "rates": rates, "shape": shape, "fv": fv, "fvtype": fvtype, "ne": ne, "te": te, "nd": nd,
            "nel": nel, "species": species, "variants": variants, "scalar_pts": draw(st.integers(0, 2))}


def _grid(case):
    fv = case["fv"]
    if case["shape"] == "2d":
        return [(x, y) for x in fv[0] for y in fv[1]], (len(fv[0]), len(fv[1]))
    return [(x, 0.0) for x in fv[0]], (len(fv[0]),)


def _stack(d, z, shape, ctx, what):
    ctx.check(isinstance(d, dict) and sorted(d) == list(range(z + 1)), what + ":keys", lambda: "keys %r" % (sorted(d),))
    out = []
    for c in range(z + 1):
        a = np.asarray(d[c], dtype=float)
        ctx.check(a.shape == shape, what + ":shape", lambda: "charge %d: shape %r, expected %r" % (c, a.shape, shape))
        out.append(a)
    return np.array(out)


def _same(ctx, got, ref, what):
    for c in range(ref.shape[0]):
        ctx.close(got[c], ref[c], what, rtol=1e-12, info="(charge %d)" % c)


def run_repr(case, ctx):
    z = case["Z"]
    el = lookup_element(z)
    donor, q = _donor(case)
    data = MockData(case["rates"], el, donor, q)
    shape_kind = case["shape"]
    dim = 2 if shape_kind == "2d" else 1
    grid, shape = _grid(case)
    fv = case["fv"]
    vals = {k: np.array([_prof(case[k], x, y) for x, y in grid]).reshape(shape) for k in ("ne", "te", "nd", "nel")}
    nd_on = donor is not None and case["nd"]["k"] != "zero"
    # every grid point must be main class for both systems (hang safety, see module docstring)
    flat = [Point(case["rates"], z, float(a), float(b), float(c), donor is not None)
            for a, b, c in zip(vals["ne"].ravel(), vals["te"].ravel(), vals["nd"].ravel())]
    flat0 = [Point(case["rates"], z, float(a), float(b), 0.0, False) for a, b in zip(vals["ne"].ravel(), vals["te"].ravel())] \
        if donor is not None else flat
    if not all(p.main for p in flat) or not all(p.main for p in flat0):
        _skip_label(ctx, 1)
        return
    ctx.label("shape:" + shape_kind)
    ctx.label("fv:" + case.get("fvtype", "float"))
    _labels(ctx, z, flat, nd_on)
    # the donor matters: dropping its density anywhere moves a fraction by > 1e-3 (n_D C comparable to n_e alpha)
    donor_matters = nd_on and any(float(np.max(np.abs(a.f - b.f))) > 1e-3 for a, b in zip(flat, flat0))
    spec_vals = [np.array([[_prof(s, x, y) for x, y in grid] for s in sp]).reshape((len(sp),) + shape) for sp in case["species"]]
    dargs = (donor, vals["nd"], q) if donor is not None else ()

    # --- reference: all-ndarray inputs
    with ctx.cut("fractional_abundance(arrays)"):
        r_frac = _stack(IB.fractional_abundance(data, el, vals["ne"], vals["te"], *dargs), z, shape, ctx, "frac")
    with ctx.cut("from_elementdensity(arrays)"), _quiet():
        r_den = _stack(IB.from_elementdensity(data, el, vals["nel"], vals["ne"], vals["te"], *dargs), z, shape, ctx, "den")
    with ctx.cut("match_plasma_neutrality(arrays)"), _quiet():
        r_neu = _stack(IB.match_plasma_neutrality(data, el, list(spec_vals), vals["ne"], vals["te"], *dargs), z, shape, ctx, "neu")
    _check_fractions(ctx, {c: r_frac[c].ravel() for c in range(z + 1)}, flat, "frac-ref")

    # --- alternative representations
    fvtype = case.get("fvtype", "float")

    def free(v):
        # integer-typed grids (np.arange / int32 / int64 arrays, python int for a single point) hold the same coordinates
        arrs = [_fv_array(a, fvtype) for a in fv]
        if shape_kind == "0d":
            return float(fv[0][0]) if fvtype == "float" else int(fv[0][0])
        if dim == 1:
            return arrs[0]
        return tuple(arrs) if v["fv"] == "tuple" else list(arrs)

    keep = []

    def rep(name, kind, lk):
        if kind in ("arr", "arrdict"):
            if shape_kind == "0d":
                return float(vals[name].ravel()[0])
            return _lay(_canon(vals[name], lk[name]), lk[name], ctx, keep, name)       # drawn memory layout / dtype
        return _mkfn(case[name], dim, kind, fv)

    def sample(obj):
        """values of a function object on the grid, exactly as the code will obtain them"""
        return np.array([obj(x) if dim == 1 else obj(x, y) for x, y in grid]).reshape(shape)

    for v in case["variants"]:
        ctx.label("variant:%s/%s/%s" % (v["ne"], v["te"], v["nd"]))
        f = free(v)
        need_fv = lambda *ks: any(k in ("py", "interp") for k in ks)
        names = ["ne", "te", "nel"] + (["nd"] if donor is not None else [])
        lk = _kinds(v)
        ctx.label("layout-mode:" + (v.get("layout") or {}).get("mode", "none"))
        obj = {n: rep(n, v[n], lk) for n in names}
        if shape_kind == "2d" and all(isinstance(obj[n], np.ndarray) and not obj[n].flags.c_contiguous
                                      for n in ["ne", "te"] + (["nd"] if donor is not None else [])):
            ctx.label("layout2d:no-C-profile")      # no C-ordered n_e / T_e / n_D: iteration order is not pinned by any operand
        # raysect interpolators return the node values only to rounding and the computed least-squares solution is not a
        # continuous function of its input at the 1e-12 level: compare with the array call on exactly the sampled values
        vv = {n: (sample(obj[n]) if isinstance(obj[n], (Function1D, Function2D)) else
                  np.array(obj[n], dtype=float).reshape(shape)) for n in names}      # f32 / int layouts hold rounded values
        sp_in, sp_arr = [], []
        entries = ["match_plasma_neutrality"] + (["interpolators1d_match_plasma_neutrality"] if shape_kind == "1d" else
                                                 ["interpolators2d_match_plasma_neutrality"] if shape_kind == "2d" else [])
        for s, sv in zip(case["species"], spec_vals):
            if v["sp"] == "arr":
                sv = _canon(sv, lk["sp"])
                sp_in.append(_lay(sv, lk["sp"], ctx, keep, "species"))         # incl. the charge-state axis
                sp_arr.append(sv)
            elif v["sp"] == "arrdict":
                sv = _canon(sv, lk["sp"])
                sp_in.append(_as_dict([_lay(sv[c], lk["sp"], ctx, keep, "species[%d]" % c) for c in range(len(s))],
                                      v.get("order"), ctx, entries))
                sp_arr.append(sv)
            else:
                fns = [_mkfn(s[c], dim, v["sp"], fv) for c in range(len(s))]
                sp_in.append(_as_dict(fns, v.get("order"), ctx, entries))
                sp_arr.append(np.array([sample(fns[c]) for c in range(len(s))]))
        same_in = all(np.array_equal(vv[n], vals[n]) for n in names)
        same_sp = all(np.array_equal(a, b) for a, b in zip(sp_arr, spec_vals))
        dv = (donor, obj["nd"], q) if donor is not None else ()
        da = (donor, vv["nd"], q) if donor is not None else ()
        kd = [v["nd"]] if donor is not None else []
        if same_in:
            q_frac, q_den = r_frac, r_den
        else:
            ctx.label("variant-reference")
            with ctx.cut("array calls on the sampled values"), _quiet():
                q_frac = _stack(IB.fractional_abundance(data, el, vv["ne"], vv["te"], *da), z, shape, ctx, "frac")
                q_den = _stack(IB.from_elementdensity(data, el, vv["nel"], vv["ne"], vv["te"], *da), z, shape, ctx, "den")
        if same_in and same_sp:
            q_neu = r_neu
        else:
            with ctx.cut("array calls on the sampled values"), _quiet():
                q_neu = _stack(IB.match_plasma_neutrality(data, el, list(sp_arr), vv["ne"], vv["te"], *da), z, shape, ctx, "neu")
        kw = {"free_variable": f} if need_fv(v["ne"], v["te"], *kd) else {}
        with ctx.cut("fractional_abundance(variant)"):
            g = _stack(IB.fractional_abundance(data, el, obj["ne"], obj["te"], *dv, **kw), z, shape, ctx, "frac-var")
        _same(ctx, g, q_frac, "frac:representation")
        kw = {"free_variable": f} if need_fv(v["ne"], v["te"], v["nel"], *kd) else {}
        with ctx.cut("from_elementdensity(variant)"), _quiet():
            g = _stack(IB.from_elementdensity(data, el, obj["nel"], obj["ne"], obj["te"], *dv, **kw), z, shape, ctx, "den-var")
        _same(ctx, g, q_den, "den:representation")
        kw = {"free_variable": f} if (need_fv(v["ne"], v["te"], *kd) or (sp_in and need_fv(v["sp"]))) else {}
        with ctx.cut("match_plasma_neutrality(variant)"), _quiet():
            g = _stack(IB.match_plasma_neutrality(data, el, sp_in, obj["ne"], obj["te"], *dv, **kw), z, shape, ctx, "neu-var")
        _same(ctx, g, q_neu, "neu:representation")

        # interpolator factories reproduce the node values
        if shape_kind == "1d":
            ctx.label("interp1d")
            x = f
            if donor_matters:
                ctx.label("donor:interpolators1d_fractional", "donor:interpolators1d_from_elementdensity",
                          "donor:interpolators1d_match_plasma_neutrality")
            with ctx.cut("interpolators1d_*"), _quiet():
                i_f = IB.interpolators1d_fractional(data, el, x, obj["ne"], obj["te"], *dv)
                i_d = IB.interpolators1d_from_elementdensity(data, el, x, obj["nel"], obj["ne"], obj["te"], *dv)
                i_n = IB.interpolators1d_match_plasma_neutrality(data, el, x, sp_in, obj["ne"], obj["te"], *dv)
            for nm, itp, ref in (("frac", i_f, q_frac), ("den", i_d, q_den), ("neu", i_n, q_neu)):
                ctx.check(isinstance(itp, dict) and sorted(itp) == list(range(z + 1)), nm + ":interp-keys", lambda: "keys %r" % (sorted(itp),))
                ctx.check(all(isinstance(itp[c], Function1D) for c in range(z + 1)), nm + ":interp-type", "not Function1D objects")
                with ctx.cut("evaluate 1d interpolators"):
                    g = np.array([[itp[c](float(xx)) for xx in x] for c in range(z + 1)])
                _same(ctx, g, ref, nm + ":interp1d-nodes")
        elif shape_kind == "2d":
            ctx.label("interp2d")
            f2 = free(v)
            if donor_matters:
                ctx.label("donor:interpolators2d_fractional", "donor:interpolators2d_from_elementdensity",
                          "donor:interpolators2d_match_plasma_neutrality")
            with ctx.cut("interpolators2d_*"), _quiet():
                i_f = IB.interpolators2d_fractional(data, el, f2, obj["ne"], obj["te"], *dv)
                i_d = IB.interpolators2d_from_elementdensity(data, el, f2, obj["nel"], obj["ne"], obj["te"], *dv)
                i_n = IB.interpolators2d_match_plasma_neutrality(data, el, f2, sp_in, obj["ne"], obj["te"], *dv)
            for nm, itp, ref in (("frac", i_f, q_frac), ("den", i_d, q_den), ("neu", i_n, q_neu)):
                ctx.check(isinstance(itp, dict) and sorted(itp) == list(range(z + 1)), nm + ":interp-keys", lambda: "keys %r" % (sorted(itp),))
                ctx.check(all(isinstance(itp[c], Function2D) for c in range(z + 1)), nm + ":interp-type", "not Function2D objects")
                with ctx.cut("evaluate 2d interpolators"):
                    g = np.array([[[itp[c](float(xx), float(yy)) for yy in fv[1]] for xx in fv[0]] for c in range(z + 1)])
                _same(ctx, g, ref, nm + ":interp2d-nodes")

    _unchanged(ctx, keep)

    # --- python scalars, point by point
    for k in range(min(case.get("scalar_pts", 0), len(grid))):
        ctx.label("scalar-points")
        i = np.unravel_index(k * (len(grid) - 1) // max(1, case["scalar_pts"] - 1) if case["scalar_pts"] > 1 else 0, shape)
        ds = (donor, float(vals["nd"][i]), q) if donor is not None else ()
        sp_s = [_as_dict([np.array([sv[(c,) + tuple(i)]]) for c in range(sv.shape[0])], case["variants"][0].get("order"), ctx,
                         ["match_plasma_neutrality(scalar)"]) for sv in spec_vals]
        with ctx.cut("scalar calls"), _quiet():
            g_f = _stack(IB.fractional_abundance(data, el, float(vals["ne"][i]), float(vals["te"][i]), *ds), z, (1,), ctx, "frac-scalar")
            g_d = _stack(IB.from_elementdensity(data, el, float(vals["nel"][i]), float(vals["ne"][i]), float(vals["te"][i]), *ds), z, (1,), ctx, "den-scalar")
            g_n = _stack(IB.match_plasma_neutrality(data, el, sp_s, float(vals["ne"][i]), float(vals["te"][i]), *ds), z, (1,), ctx, "neu-scalar")
        for nm, g, ref in (("frac", g_f, r_frac), ("den", g_d, r_den), ("neu", g_n, r_neu)):
            for c in range(z + 1):
                ctx.close(g[c][0], ref[(c,) + tuple(i)], nm + ":scalar", rtol=1e-12, scale=float(np.max(np.abs(ref[c]))), info="(charge %d)" % c)
    if _nontrivial(flat, flat0, nd_on) and any(k != "arr" for v in case["variants"] for k in (v["ne"], v["te"])):
        ctx.nt()
        ctx.label("nt")


# ----------------------------------------------------------------------------------------------- sub-check: map3d
_EQ = {}


def _equilibrium():
    if "eq" not in _EQ:
        from cherab.tools.equilibrium import example_equilibrium
        _EQ["eq"] = example_equilibrium()
    return _EQ["eq"]


@st.composite
def strat_map3d(draw):
    z = draw(st.integers(1, 6))
    donor = draw(st.sampled_from([None, "H0", "He1"]))
    rates = draw(_rates(z, donor is not None, dmax=2.0, xhi=4.0))
    n = draw(st.integers(3, 6))
    inner = sorted(set(round(draw(st.floats(0.05, 0.98)), 3) for _ in range(n - 2)))
    psin = [0.0] + inner + [draw(st.floats(1.02, 1.2))]
    ext = psin[-1]

    def prof(v0, amp):
        return {"k": "exp", "v0": v0, "x0": 0.0, "y0": 0.0, "c1": draw(st.floats(-amp, amp)) * math.log(10.0) / ext, "c2": 0.0}
    nd = prof(rates["ne0"] * 10.0 ** draw(st.floats(-2.0, 0.7)), 0.5) if donor is not None else {"k": "zero"}
    species = [[dict(prof(rates["ne0"], 0.0), mul=wc) for wc in w] for w in draw(_species(draw(st.sampled_from([0, 1, 1, 2]))))]
    return {"Z": z, "donor": donor, "rates": rates, "psin": psin, "ne": prof(rates["ne0"], 0.4), "te": prof(rates["te0"], 0.4),
            "nd": nd, "nel": prof(rates["ne0"] * 1e-3, 1.0), "species": species,
            "as_fn": draw(st.booleans()), "sp": draw(st.sampled_from(["arr", "arrdict", "py"])), "sp_order": draw(_order_st),
            "layout": draw(_layouts()),
            "rz": [[draw(st.floats(0.0, 1.0)), draw(st.floats(0.0, 1.0)), draw(st.floats(0.0, 6.2))] for _ in range(6)]}


def run_map3d(case, ctx):
    eq = _equilibrium()
    z = case["Z"]
    el = lookup_element(z)
    donor, q = _donor(case)
    data = MockData(case["rates"], el, donor, q)
    psin = np.array(case["psin"])
    lk, keep = _kinds(case), []
    vals = {k: np.array([_prof(case[k], x) for x in psin]) for k in ("ne", "te", "nd", "nel")}
    if not case["as_fn"]:
        vals = {k: _canon(vals[k], lk[k]) for k in vals}       # profile arrays are handed over in the drawn layouts / dtypes
    flat = [Point(case["rates"], z, float(a), float(b), float(c), donor is not None) for a, b, c in zip(vals["ne"], vals["te"], vals["nd"])]
    flat0 = [Point(case["rates"], z, float(a), float(b), 0.0, False) for a, b in zip(vals["ne"], vals["te"])]
    if not all(p.main for p in flat) or not all(p.main for p in flat0):
        _skip_label(ctx, 1)
        return
    ctx.label("donor" if donor is not None else "nodonor")
    fv = [list(psin)]
    objs = {k: (_mkfn(case[k], 1, "py", fv) if case["as_fn"] else _lay(vals[k], lk[k], ctx, keep, k)) for k in vals}
    rep = lambda k: objs[k]
    dargs = (donor, vals["nd"], q) if donor is not None else ()
    dv = (donor, rep("nd"), q) if donor is not None else ()
    spec_vals = [np.array([[_prof(s, x) for x in psin] for s in sp]) for sp in case["species"]]
    if case.get("sp", "arr") != "py":
        spec_vals = [_canon(sv, lk["sp"]) for sv in spec_vals]
    with ctx.cut("direct calls"), _quiet():
        r_frac = _stack(IB.fractional_abundance(data, el, vals["ne"], vals["te"], *dargs), z, psin.shape, ctx, "frac")
        r_den = _stack(IB.from_elementdensity(data, el, vals["nel"], vals["ne"], vals["te"], *dargs), z, psin.shape, ctx, "den")
        r_neu = _stack(IB.match_plasma_neutrality(data, el, list(spec_vals), vals["ne"], vals["te"], *dargs), z, psin.shape, ctx, "neu")
    sp_in = []
    for sp, sv in zip(case["species"], spec_vals):      # species as ndarray, or as {charge: array | Function1D} in the drawn key order
        if case.get("sp", "arr") == "arr":
            sp_in.append(_lay(sv, lk["sp"], ctx, keep, "species"))
        else:
            items = [_lay(row, lk["sp"], ctx, keep, "species[]") for row in sv] if case["sp"] == "arrdict" else \
                [_mkfn(sc, 1, "py", fv) for sc in sp]
            sp_in.append(_as_dict(items, case.get("sp_order"), ctx, ["equilibrium_map3d_match_plasma_neutrality"]))
    with ctx.cut("equilibrium_map3d_*"), _quiet():
        m_f = IB.equilibrium_map3d_fractional(data, el, eq, psin, rep("ne"), rep("te"), *dv)
        m_d = IB.equilibrium_map3d_from_elementdensity(data, el, eq, psin, rep("nel"), rep("ne"), rep("te"), *dv)
        m_n = IB.equilibrium_map3d_match_plasma_neutrality(data, el, eq, psin, sp_in, rep("ne"), rep("te"), *dv)
    _unchanged(ctx, keep)
    r0, r1 = eq.r_range
    z0, z1 = eq.z_range
    n_in = 0
    for u, w, phi in case["rz"]:
        r, zz = r0 + (0.02 + 0.96 * u) * (r1 - r0), z0 + (0.02 + 0.96 * w) * (z1 - z0)
        x, y = r * math.cos(phi), r * math.sin(phi)
        r = math.sqrt(x * x + y * y)          # the radius AxisymmetricMapper will use
        inside = eq.inside_lcfs(r, zz) > 0.5
        pn = eq.psi_normalised(r, zz)
        if inside and not pn <= psin[-1]:
            continue
        n_in += inside
        for nm, mp, ref, itype in (("frac", m_f, r_frac, "linear"), ("den", m_d, r_den, "linear"), ("neu", m_n, r_neu, "cubic")):
            ctx.check(isinstance(mp, dict) and sorted(mp) == list(range(z + 1)), nm + ":map3d-keys", lambda: "keys %r" % (sorted(mp),))
            for c in range(z + 1):
                with ctx.cut("evaluate mapped function"):
                    g = mp[c](x, y, zz)
                want = Interpolator1DArray(psin, ref[c], itype, "none", 0)(pn) if inside else 0.0
                ctx.close(g, want, nm + ":map3d", rtol=1e-9, scale=float(np.max(np.abs(ref[c]))), info="(charge %d, psi_n %r)" % (c, pn))
    ctx.label("inside-lcfs" if n_in else "all-outside")
    if n_in and donor is not None and any(float(np.max(np.abs(a.f - b.f))) > 1e-3 for a, b in zip(flat, flat0)):
        ctx.label("donor:equilibrium_map3d_fractional", "donor:equilibrium_map3d_from_elementdensity",
                  "donor:equilibrium_map3d_match_plasma_neutrality")
    ctx.nt(n_in > 0 and max(p.populated() for p in flat) >= min(3, z + 1))


# ----------------------------------------------------------------------------------------------- sub-check: wide
@st.composite
def strat_wide(draw):
    mode = draw(st.sampled_from(["spread", "spread", "scale"]))
    z = draw(st.one_of(st.integers(2, 8), st.integers(2, 18)))
    donor = draw(st.sampled_from([None, "H0"]))
    if mode == "spread":        # 6-12 decades between the smallest and the largest rate
        d = draw(st.floats(6.0, 12.0))
        ne0 = 10.0 ** draw(st.floats(17.5, 20.5))
        base = -3.0 - math.log10(ne0)               # n_e x smallest rate = 1e-3 1/s
        rates = {"ne0": ne0, "te0": 10.0 ** draw(st.floats(0.5, 3.5))}
        for fam in ("S", "A", "C") if donor is not None else ("S", "A"):
            rates[fam] = [[base + d * draw(_unit), 0.0, 0.0] for _ in range(z)]
        k = draw(st.integers(0, z - 1))
        rates["S"][k][0], rates["A"][draw(st.integers(0, z - 1))][0] = base + d, base       # the stated spread is reached
    else:                       # moderate spread, balance rows much larger than the normalisation row
        rates = draw(_rates(z, donor is not None, dmax=4.0, xlo=7.0, xhi=13.0))
    ne = rates["ne0"]
    nd = draw(st.floats(-3.0, 1.0).map(lambda e: 10.0 ** e)) * ne if donor else 0.0
    case = {"Z": z, "donor": donor, "rates": rates, "mode": mode, "pts": [[ne, rates["te0"], nd]]}
    if EXCL_LSQ:
        case["excluded_known"] = True      # observe and label only; the probe replay (no flag) still asserts
    return case


def _wide_child(conn, case):
    try:
        z = case["Z"]
        el = lookup_element(z)
        donor, q = _donor(case)
        p = case["pts"][0]
        args = (donor, p[2], q) if donor is not None else ()
        got = IB.fractional_abundance(MockData(case["rates"], el, donor, q), el, p[0], p[1], *args)
        conn.send(("ok", [float(np.asarray(got[c]).reshape(-1)[0]) for c in range(z + 1)]))
    except BaseException as e:  # noqa
        try:
            conn.send(("exc", "%s: %s" % (type(e).__name__, e)))
        except Exception:  # noqa
            pass


def _limited(case, limit):
    mp = multiprocessing.get_context("fork")
    parent, child = mp.Pipe(duplex=False)
    proc = mp.Process(target=_wide_child, args=(child, case), daemon=True)
    proc.start()
    child.close()
    msg = ("timeout", None)
    try:
        if parent.poll(limit):
            msg = parent.recv()
    except (EOFError, OSError):
        msg = ("exc", "child died without an answer")
    finally:
        if proc.is_alive():
            proc.terminate()
            proc.join(2)
            if proc.is_alive():
                proc.kill()
        proc.join()
        parent.close()
    return msg


def run_wide(case, ctx):
    z = case["Z"]
    p = case["pts"][0]
    pt = Point(case["rates"], z, p[0], p[1], p[2], case.get("donor") is not None)
    observe = bool(case.get("excluded_known"))
    if observe:
        ctx.label("excluded_known")
    ctx.label("mode:" + case.get("mode", "?"))
    ctx.label("main-class" if pt.main else "outside-main")
    ctx.label("spread:%d-%d" % (2 * int(pt.spread / 2), 2 * int(pt.spread / 2) + 2))
    status, val = _limited(case, WIDE_LIMIT_S)
    if status == "timeout":
        ctx.label("timeout-inconclusive")
        return
    if status == "exc":
        if observe:
            ctx.label("raised")
            return
        ctx.fail("wide:raised", "fractional_abundance raised %s" % val)
    f = np.array(val)
    err = float(np.max(np.abs(f - pt.f))) if np.all(np.isfinite(f)) else float("inf")
    serr = abs(float(f.sum()) - 1.0)
    bad = not (err <= TOL_CAP and serr <= TOL_CAP * (z + 1) and f.min() >= -1e-12 and f.max() <= 1 + 1e-12)
    ctx.label("inaccurate" if bad else "accurate")
    ctx.nt(not observe and pt.populated() >= min(3, z + 1))
    if bad and not observe:
        ctx.fail("wide:recursion", "max |f - exact| = %.3g, |sum - 1| = %.3g (limit %.0e); rate spread %.1f decades, cond2(A) = %.3g, "
                 "min exact fraction %.3g; got %r exact %r" % (err, serr, TOL_CAP, pt.spread, pt.cond, pt.fmin, f.tolist(), pt.f.tolist()))


SUBCHECKS = {
    "fractional": Given(strat_fractional, run_fractional, quick=2400, thorough=40000,
                        doc="fractional_abundance vs the exact recursion: range, sum, fractions, pairwise balance; with / without donor"),
    "densities": Given(strat_densities, run_densities, quick=1600, thorough=24000,
                       doc="from_elementdensity = n_el x fractions; match_plasma_neutrality: non-negative, charge closes, fractions"),
    "repr": Given(strat_repr, run_repr, quick=600, thorough=8000,
                  doc="scalar / ndarray / Function1D / Function2D inputs give the same arrays; interpolators reproduce node values"),
    "map3d": Given(strat_map3d, run_map3d, quick=64, thorough=800,
                   doc="equilibrium_map3d_* equal the directly computed profile interpolated at psi_n(R, Z)"),
    "wide": Given(strat_wide, run_wide, quick=32, thorough=320,
                  doc="rate sets outside the main class, child process with a time limit"),
}
