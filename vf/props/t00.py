"""Self-test of the framework (toy property with a planted failure when T00_BREAK=1)."""
import os
from hypothesis import strategies as st
from ..core import Given, Machine
ID = "T00"; RULE = "toy"; ASSUMPTIONS = []
BREAK = os.environ.get("T00_BREAK") == "1"
def strat(): return st.fixed_dictionaries({"xs": st.lists(st.integers(0, 1000), max_size=20)})
def run(case, ctx):
    ctx.nt(len(case["xs"]) > 2)
    s = sorted(case["xs"])
    if BREAK and len(s) > 3 and s[-1] > 500: ctx.fail("sorted", "planted")
class Model:
    OPS = {"push": lambda: st.integers(0, 100), "pop": lambda: st.just(None)}
    def __init__(self, ctx, params): self.ctx = ctx; self.real = []; self.model = []
    def pre_pop(self): return len(self.model) > 0
    def do_push(self, a):
        self.real.append(a); self.model.append(a)
        if BREAK and a > 90 and len(self.real) > 2: self.real.pop()
    def do_pop(self, a): self.real.pop(); self.model.pop()
    def invariant(self): self.ctx.check(self.real == self.model, "agree", "real %r model %r" % (self.real, self.model))
    def finish(self): self.ctx.nt(len(self.model) > 1)
    def close(self): pass
SUBCHECKS = {"g": Given(strat, run, 200, 2000), "m": Machine(Model, 50, 500)}
