"""C10 - ray-transfer matrices account for the whole chord and respect voxel maps (RayTransferBox / RayTransferCylinder)."""
import math

import numpy as np
from hypothesis import strategies as st

from raysect.core import Point3D, Vector3D, translate, rotate_x, rotate_y, rotate_z, rotate_basis
from raysect.core.workflow import SerialEngine
from raysect.optical import World, Ray, NumericalIntegrator
from raysect.primitive import Box, Cylinder, Subtract
from raysect.optical.observer import SightLine, VectorCamera, FullFrameSampler1D, FullFrameSampler2D
from raysect.optical.observer.base import Observer1D

from cherab.tools.raytransfer import RayTransferBox, RayTransferCylinder, RayTransferObject
from cherab.tools.raytransfer import CartesianRayTransferEmitter, CylindricalRayTransferEmitter
from cherab.tools.raytransfer import CartesianRayTransferIntegrator, CylindricalRayTransferIntegrator
from cherab.tools.raytransfer import RayTransferPipeline0D, RayTransferPipeline1D, RayTransferPipeline2D

from ..core import Given, deep
from ..findings import is_open
from ..oracles import chords as CH

ID = "C10"
RULE = ("Case = one ray-transfer object (box: nx,ny,nz in 1..6, cells 0.05..2 m; cylinder: n_r,n_z in 1..6, n_polar in 1..8 incl. "
        "the axisymmetric 2-D form, inner radius 0 or > 0, period in {360,180,120,90,72,60,45, 22.5, 7.5, 360/7, 360/11}), a voxel description (none / "
        "boolean mask / voxel map with merged cells, -1 holes and unused source numbers; given to the constructor or through the "
        "property setters), an integration step (default, or 0.05..1.7 of the smallest cell), a rigid placement (translation + "
        "three rotations) and 4 rays built by construction in grid coordinates: through two points of the enlarged bounding "
        "region; axis-parallel (box x/y/z; cylinder vertical / radial / Cartesian); through grid lines, edges and corners "
        "(lattice coordinates + 0, +-1e-9, +-1e-6, +-1e-4 m); lying in a grid plane / phi half-plane; tangential to a ring radius; "
        "through the axis; with the origin inside the object (generic or on a lattice point). Each ray is traced with "
        "raysect Ray(bins=rt.bins).trace(world) in the world frame (my own matrices); spectrum.samples is the matrix row. "
        "Oracle: exact event-based chord pieces in the local frame (vf/oracles/chords.py) -> per source certain/possible "
        "length [lo, hi] (hi > lo only where the ray runs within 3e-8 m of a grid or primitive surface). Relations: per source "
        "lo - tol <= entry <= hi + tol; sum of entries against the chord in the active cells; exact 0 for sources never "
        "touched; merged map vs. the one-source-per-cell map of the same active cells (same ray, same step); the ray rotated "
        "about the axis by k periods obeys the bounds of the unrotated ray; sample-exact replica of the documented midpoint "
        "scheme; bins / voxel_map / mask / invert_voxel_map bookkeeping; any exception from construction or tracing is a "
        "violation. Non-trivial (per case: at least one of its rays) = the ray crosses >= 3 cells and at least one of: passes "
        "within 1e-9 m of a grid edge/corner, is tangential to a grid ring (closest approach within 1e-9 m of a ring radius), "
        "starts inside, crosses a masked / -1 cell, phi-wraps (crosses the phi = 0 seam of a sector or visits a periodic copy); "
        "distinct by case hash. While the known finding C10-axis-hole-zero-row is open, rays of radius_inner = 0 cylinders that "
        "pass the axis closer than 10 radii of the artificial axis hole (1e-4 dr) are marked excluded_known by the generator "
        "and the oracle models that hole; once it is fixed the oracle expects no hole at radius_inner = 0. "
        "Widening (all inside box / cyl): construction path = RayTransferBox / RayTransferCylinder (positional or keyword, ctor or "
        "setters) or the documented lower-level path emitter class + own bounding primitive wrapped in RayTransferObject; "
        "integrator options: step given to the constructor / rt.step / rt.material.integrator.step / a new "
        "Cartesian- or CylindricalRayTransferIntegrator(step, min_samples) assigned afterwards, min_samples in {2, 3, 5, 40} "
        "(n clamped by min_samples on short chords, step up to 6 cells), or raysect's NumericalIntegrator driving "
        "emission_function (trapezium replica); argument forms: mask / voxel_map as bool, int32, int64, float64, Fortran-ordered "
        "and strided views, scalars as float, int (where integer-valued) or numpy scalars; re-use: 0-2 changes of mask / "
        "voxel_map / step / min_samples through the setters on the same object with two rays re-traced and re-checked against "
        "the oracle after each, then the first configuration restored through the setters and the first ray traced again "
        "(row must be bit-identical; every spectrum returned earlier still intact; getters read twice); caller-owned data: "
        "the array passed in is bit-identical afterwards, and overwriting it afterwards changes neither voxel_map / bins nor "
        "the traced row; setter history with equal active sets (half of the cases): a permuting / merging voxel_map followed by "
        "obj.mask = obj.mask, a fresh equal boolean mask and (full coverage) an all-True mask, and the mirror mask -> equal / "
        "same-active-set voxel_map; each must leave bins / voxel_map / rows as a fresh object built with the last assignment. "
        "While C10-fortran-voxel-map is open, voxel maps (not masks) are kept out of the Fortran layout. "
        "Sub-check pipelines: the same object generators + a pool of 6 generated rays; a RayTransferPipeline0D / 1D / 2D (kind "
        "power / radiance, sensitivity 1, 0.5, 2.5, pixel_samples 1..3, 0-D samples_per_task 1 or 250) on a SightLine / a minimal "
        "fixed-ray Observer1D (1..4 pixels) / a VectorCamera of shape (<=3, <=2) or (<=2, <=3); the SAME pipeline object is "
        "observed three times, with 1-2 changes before the 2nd and 3rd observe() (mask, voxel_map -> other bins, object "
        "transform, observer rays / pixel count / image shape, pipeline.kind, pixel_samples), then a fresh pipeline as control. "
        "After every observe() pipeline.matrix must have the observer's shape + (bins,) and equal sensitivity^[power] x the rows "
        "obtained by Ray.trace of the same ray(s) in the current configuration; the control must equal the thrice-used pipeline. "
        "Non-trivial there = at least two of the three observations have a non-zero matrix and at least one change altered it.")
ASSUMPTIONS = ["raysect's Ray.trace / Box / Cylinder / Subtract are trusted: a volume is integrated between the surface hits of the "
               "bounding primitive (or from the ray origin when it lies inside), null surfaces neither count in the ray depth nor "
               "trigger extinction, a ray that passed a surface is re-launched <= 1e-9 m from the hit point",
               "the documented geometry: grid starts at the local origin (cylinder base at z = 0, phi from +x towards +y), "
               "bounding primitive = grid volume shrunk by 1e-5 cell (raytransfer.py), dr = (r_out - r_in)/n_r etc.",
               "the integration scheme anchored by the property: per volume segment n = max(2, int(length/step)) midpoint samples, "
               "dt = length/n, segment skipped when length < 0.1 step",
               "standard right-handed rotation matrices for raysect's rotate_x/y/z, translate",
               "raysect's NumericalIntegrator: trapezium rule on max(min_samples - 1, floor(length/step)) equal intervals, end samples "
               "weighted 1/2, only length == 0 skipped (read from raysect 0.8.1 source)",
               "pipelines: observers run with SerialEngine and spectral_rays = 1; every observer used launches pixel_samples "
               "identical rays per pixel (SightLine: its axis; VectorCamera: no jitter for edge pixels, so only images with "
               "min(shape) <= 2; 1-D: raysect ships no deterministic Observer1D, a 12-line Python subclass with fixed rays and "
               "unit projection weights is used), so pipeline.matrix is deterministic and comparable with a direct Ray.trace",
               "generated floats with |v| < 1e-6 are snapped to 0 (raysect's Cylinder.hit misses when the square of a direction "
               "component underflows; see notes/C10-raysect-tangent-inner-cylinder.py)"]
TOLERANCES = {
    "per source (statement: two integration steps)":
        "lo - max(2 dt, k_lo dt) - 1e-9(1+L) <= entry <= hi + max(2 dt, k_hi dt) + 1e-9(1+L); dt = length/n of the segment actually "
        "used (largest one among the segments touching the source for the '2 dt'; summed per segment for 'k dt'). k = number of "
        "separate sub-chords (maximal runs of pieces) the source receives. Justification for scaling with k: within one segment "
        "the samples are equidistant, so the number of samples in an interval of length l differs from l/dt by < 1; a source "
        "made of k disjoint intervals (ring crossed twice, periodic copies, merged cells) can therefore be off by < k dt, which "
        "exceeds the statement's 2 dt only for k >= 3 (label cell:subchords>2; cases where the error really exceeds 2 dt are "
        "labelled cell:err>2dt)",
    "total": "sum(lo over pieces with only active candidates) - K_lo dt <= sum(entries) <= sum(hi) + K_hi dt, K = number of maximal active "
             "runs per segment (<= number of active/inactive transitions + 1): same counting argument; a segment shorter than "
             "0.1 step is documented to be skipped and is allowed to miss",
    "ambiguity": "pieces of the ray closer than DELTA = 3e-8 m to a surface are allowed to belong to either side (raysect shifts "
                 "re-launched rays by 1e-9 m, transforms round at 1e-15); the bounding primitive is clipped at the documented 1e-5-cell "
                 "shrink, not loosened; when a primitive surface is touched without a clean crossing (in-plane on a cap, tangent to "
                 "the inner/outer cylinder within DELTA: segmentation decided by raysect's CSG, which was observed to drop half of "
                 "the chord of a ray tangent to the subtracted inner cylinder) dt is replaced by its upper bound 1.5 step and only "
                 "the upper bounds are demanded (label ray:ambiguous-segmentation); a ray whose origin lies within DELTA of a "
                 "primitive surface is only traced (exceptions count), raysect decides whether it starts inside",
    "merged map": "1e-9 (1 + L): same samples, only the order of the floating-point additions differs",
    "repeat / caller-data": "bit-identical rows (same object, same configuration, same ray: the computation is deterministic)",
    "trapezium replica (NumericalIntegrator + emission_function)": "as the midpoint replica with samples at j*h, h = length/intervals, "
                 "weights 1/2 at both ends; the end samples lie on the primitive surface and count as possible only; statement-level "
                 "bounds use dt = h (<= 2 step when the segmentation is ambiguous)",
    "pipelines": "1e-9 (1 + bounding radius) max(1, sensitivity): the pipeline adds pixel_samples identical spectra and divides by the "
                 "count; the rays are bit-identical to the directly traced ones",
    "midpoint replica": "entry = dt * (number of midpoint samples in the source) within 1e-9 (1 + L); samples closer to a piece boundary "
                        "than the uncertainty of the segment ends (band widths of the entry/exit surfaces + 3e-8 m) count as possible "
                        "for both sides; skipped when n itself is uncertain (length/step within that uncertainty of an integer)",
}
REQUIRED_LABELS = ["box:ray:edge", "box:ray:inside", "box:ray:axis", "box:ray:plane", "box:ray:two", "box:nt:masked", "box:nt:edge",
                   "box:map:merge", "box:map:mask", "cyl:ray:tangent", "cyl:ray:halfplane", "cyl:ray:axis", "cyl:ray:edge",
                   "cyl:ray:throughaxis", "cyl:nt:wraps", "cyl:nt:tangent", "cyl:axisymmetric", "cyl:period<360", "cyl:period:fractional", "cyl:rmin>0",
                   "cyl:rmin=0", "cyl:map:merge", "pipelines:dim:0", "pipelines:dim:1", "pipelines:dim:2", "pipelines:power",
                   "pipelines:radiance", "pipelines:change:mask", "pipelines:change:map", "pipelines:change:place",
                   "pipelines:change:view", "pipelines:change:kind", "pipelines:change:samples"]
# entry points / options of the three anchored files, each at least once per run and per grid type
for _k in ("box", "cyl"):
    REQUIRED_LABELS += [_k + ":" + lab for lab in (
        "build:object", "build:emitter", "integ:plain", "integ:rt.step", "integ:integrator.step", "integ:new", "ms:2", "ms:3", "ms:40",
        "n=min_samples", "scheme:midpoint", "scheme:trapezium", "form:c64", "form:i32", "form:f64", "form:strided", "form:fortran",
        "scalars:float", "scalars:int", "scalars:numpy", "reuse:mask", "reuse:voxel_map", "reuse:step", "reuse:min_samples", "repeat",
        "caller:poke", "via:ctor", "via:setter", "step:default", "map:none", "map:mask", "map:merge", "map:identity", "ray:z-parallel")]
REQUIRED_LABELS += ["box:shape:nx!=ny!=nz"]
REQUIRED_LABELS += [k + ":history:" + h for k in ("box", "cyl") for h in ("map-then-mask", "mask-then-map", "all-true-mask", "permuted", "merged-full")]

FORTRAN = "C10-fortran-voxel-map"        # open: a Fortran-ordered / transposed voxel_map is rejected and corrupts the object
AXIS_HOLE = "C10-axis-hole-zero-row"     # open: radius_inner = 0 still gets an inner bounding cylinder of radius 1e-5 dr

PERIODS = [360.0, 180.0, 120.0, 90.0, 72.0, 60.0, 45.0, 22.5, 7.5, 360.0 / 7, 360.0 / 11]     # whole and fractional degrees
SIZES = [0.05, 0.1, 0.25, 0.5, 1.0, 2.0]
OFFS = [0.0, 0.0, 0.0, 0.0, 1e-9, -1e-9, 1e-6, -1e-6, 1e-4, -1e-4]
ANGLES = [0.0, 0.0, 90.0, -90.0, 180.0, 30.0, 45.0, -137.5]
STEPS = [None, 0.05, 0.1, 0.23, 0.5, 1.0, 1.7, 6.0]
MIN_SAMPLES = [2, 2, 2, 3, 5, 40]
NRAYS = 4


# ------------------------------------------------------------------------------------------------ strategies
def _snap(v):
    # |v| < 1e-6 -> 0: raysect's Cylinder.hit misses the cylinder when the square of a direction component underflows
    # (e.g. Vector3D(0, 1e-200, 1)); such values carry no geometric meaning and are not what C10 is about
    return 0.0 if abs(v) < 1e-6 else v


def _fl(lo, hi):
    return st.floats(lo, hi).map(_snap)


def _size(draw):
    return draw(st.sampled_from(SIZES)) if draw(st.booleans()) else draw(_fl(0.05, 2.0))


def _voxels(draw, ncell):
    kind = draw(st.sampled_from(["none", "mask", "mask", "merge", "merge", "identity"]))
    if kind == "none":
        return {"kind": "none"}
    keep = draw(st.integers(0, ncell - 1))
    if kind == "mask":
        cells = draw(st.lists(st.integers(0, 3), min_size=ncell, max_size=ncell))
        cells = [1 if c else 0 for c in cells]              # 75 % active
        cells[keep] = 1
        return {"kind": "mask", "cells": cells, "int": draw(st.booleans())}
    if kind == "identity":
        return {"kind": "map", "cells": list(range(ncell)), "sub": "identity"}
    nsrc = draw(st.integers(1, max(1, min(ncell, 12))))
    cells = draw(st.lists(st.integers(-1, nsrc - 1), min_size=ncell, max_size=ncell))
    cells[keep] = max(cells[keep], 0)
    return {"kind": "map", "cells": cells, "sub": "merge"}


def _placement(draw):
    if draw(st.integers(0, 4)) == 0:
        return {"t": [0.0, 0.0, 0.0], "r": [0.0, 0.0, 0.0]}
    return {"t": [draw(_fl(-5.0, 5.0)) for _ in range(3)],
            "r": [draw(st.sampled_from(ANGLES)) if draw(st.booleans()) else draw(_fl(-180.0, 180.0)) for _ in range(3)]}


def _lat(draw, n, integer):
    return draw(st.integers(0, n)) if integer else draw(_fl(0.0, float(n)))


def _back(draw, inside=False):
    if inside:
        return 0.0
    return draw(st.sampled_from([3.5, 3.5, 3.5, 0.0, 0.3, 0.7]))


@st.composite
def _box_ray(draw, n):
    cls = draw(st.sampled_from(["two", "axis", "edge", "edge", "plane", "inside"]))
    off = lambda: draw(st.sampled_from(OFFS))       # noqa: E731
    if cls == "two":
        a = {"lat": [draw(_fl(0.0, float(n[k]))) for k in range(3)], "off": [0.0] * 3}
        b = {"lat": [draw(_fl(-0.4 * n[k], 1.4 * n[k])) for k in range(3)], "off": [0.0] * 3}
        return {"cls": cls, "a": a, "b": b, "back": _back(draw)}
    if cls == "axis":
        ax = draw(st.integers(0, 2))
        ints = [draw(st.booleans()) for _ in range(3)]
        a = {"lat": [_lat(draw, n[k], ints[k]) for k in range(3)], "off": [off() if ints[k] else 0.0 for k in range(3)]}
        rel = [0.0, 0.0, 0.0]
        rel[ax] = draw(st.sampled_from([1.0, -1.0]))
        return {"cls": cls, "a": a, "b": {"rel": rel}, "back": _back(draw)}
    if cls == "edge":
        free = draw(st.integers(0, 3))                   # 3: corner (all three lattice coordinates)
        a = {"lat": [_lat(draw, n[k], k != free) for k in range(3)], "off": [off() if k != free else 0.0 for k in range(3)]}
        if draw(st.booleans()):
            free2 = draw(st.integers(0, 3))
            b = {"lat": [_lat(draw, n[k], k != free2) for k in range(3)], "off": [off() if k != free2 else 0.0 for k in range(3)]}
        else:
            b = {"lat": [draw(_fl(-0.4 * n[k], 1.4 * n[k])) for k in range(3)], "off": [0.0] * 3}
        return {"cls": cls, "a": a, "b": b, "back": _back(draw)}
    if cls == "plane":
        ax = draw(st.integers(0, 2))
        a = {"lat": [_lat(draw, n[k], k == ax) for k in range(3)], "off": [off() if k == ax else 0.0 for k in range(3)]}
        rel = [draw(_fl(-1.0, 1.0)) for _ in range(3)]
        rel[ax] = 0.0
        if draw(st.booleans()):
            rel[(ax + 1) % 3] = 1.0
        return {"cls": cls, "a": a, "b": {"rel": rel}, "back": _back(draw)}
    ints = [draw(st.integers(0, 3)) == 0 for _ in range(3)]
    a = {"lat": [(draw(st.integers(1, n[k] - 1)) if (ints[k] and n[k] > 1) else draw(_fl(0.02, n[k] - 0.02))) for k in range(3)],
         "off": [off() if (ints[k] and n[k] > 1) else 0.0 for k in range(3)]}
    b = {"rel": [draw(_fl(-1.0, 1.0)) if draw(st.integers(0, 3)) else 0.0 for _ in range(3)]}
    return {"cls": cls, "a": a, "b": b, "back": 0.0}


def _options(draw, ncell):
    """how the object is built and used: construction path, integrator options, argument forms, re-use, caller-owned data."""
    forms = ["c64", "c64", "i32", "f64", "strided", "fortran", "fortran"]
    reuse = []
    for _ in range(draw(st.integers(0, 2))):
        what = draw(st.sampled_from(["vox", "vox", "step", "ms"]))
        if what == "vox":
            reuse.append({"vox": _voxels(draw, ncell)})
        elif what == "step":
            reuse.append({"step": draw(st.sampled_from(STEPS[1:]))})
        else:
            reuse.append({"ms": draw(st.sampled_from([2, 3, 7, 40]))})
    form = draw(st.sampled_from(forms))
    known = {"form_map": "c64"} if (form == "fortran" and is_open(FORTRAN)) else {}   # known finding: masks only get this layout
    return {"build": draw(st.sampled_from(["object", "object", "emitter"])), **known,
            "integ": draw(st.sampled_from(["plain", "plain", "rt.step", "integrator.step", "new"])),
            "ms": draw(st.sampled_from(MIN_SAMPLES)), "numerical": draw(st.integers(0, 7)) == 0,
            "form": form, "scalars": draw(st.sampled_from(["float", "float", "int", "numpy"])),
            "reuse": reuse, "poke": draw(st.booleans()),
            "equiv": draw(st.sampled_from([None, None, "map-then-mask", "mask-then-map"])), "equiv_var": draw(st.integers(0, 2))}


@st.composite
def box_case(draw):
    n = [draw(st.one_of(st.integers(1, 6), st.integers(1, deep(6, 14)))) for _ in range(3)]
    d = [_size(draw) for _ in range(3)]
    return {"kind": "box", "n": n, "d": d, "step": draw(st.sampled_from(STEPS)), "vox": _voxels(draw, n[0] * n[1] * n[2]),
            "via": draw(st.sampled_from(["ctor", "setter"])), "place": _placement(draw),
            "wl": [draw(_fl(100.0, 900.0)), draw(_fl(0.01, 300.0))],
            "rays": [draw(_box_ray(n)) for _ in range(NRAYS)], "opt": _options(draw, n[0] * n[1] * n[2])}


@st.composite
def _cyl_ray(draw, n, nsurf):
    nr, nphi, nz = n
    cls = draw(st.sampled_from(["two", "axis", "tangent", "tangent", "edge", "halfplane", "throughaxis", "inside"]))
    off = lambda: draw(st.sampled_from(OFFS))       # noqa: E731
    nang = max(nsurf, 1)
    # phi lattice unit: dphi (all 360/dphi half-planes, i.e. every periodic copy) when n_polar > 1, else 360 deg

    def cylpoint(ir, ip, iz):
        rl = draw(st.integers(0, nr)) if ir else draw(_fl(0.0, float(nr)))
        pl = draw(st.integers(0, nang - 1)) if ip else draw(_fl(0.0, float(nang)))
        zl = draw(st.integers(0, nz)) if iz else draw(_fl(0.0, float(nz)))
        return {"cyl": [rl, pl, zl], "off": [off() if ir else 0.0, off() if ip else 0.0, off() if iz else 0.0]}

    def xyz(lo, hi, zlo, zhi):
        return {"xyz": [draw(_fl(lo, hi)), draw(_fl(lo, hi)), draw(_fl(zlo, zhi))]}

    if cls == "two":
        return {"cls": cls, "a": xyz(-1.0, 1.0, 0.0, 1.0), "b": xyz(-1.4, 1.4, -0.4, 1.4), "back": _back(draw)}
    if cls == "axis":
        sub = draw(st.sampled_from(["vertical", "radial", "cartesian"]))
        if sub == "cartesian":
            rel = [0.0, 0.0, 0.0]
            rel[draw(st.integers(0, 2))] = draw(st.sampled_from([1.0, -1.0]))
            return {"cls": cls, "a": xyz(-1.0, 1.0, 0.0, 1.0), "b": {"rel": rel}, "back": _back(draw)}
        a = cylpoint(draw(st.booleans()), draw(st.booleans()), draw(st.booleans()))
        rel = [0.0, 0.0, draw(st.sampled_from([1.0, -1.0]))] if sub == "vertical" else [draw(st.sampled_from([1.0, -1.0])), 0.0, 0.0]
        return {"cls": cls, "a": a, "b": {"rel": rel}, "back": _back(draw)}
    if cls == "tangent":
        a = cylpoint(True, draw(st.booleans()), draw(st.booleans()))
        c = draw(st.sampled_from([0.0, 0.0, 1.0])) * draw(_fl(-1.5, 1.5))
        return {"cls": cls, "a": a, "b": {"rel": [0.0, draw(st.sampled_from([1.0, -1.0])), c]}, "back": _back(draw)}
    if cls == "edge":
        free = draw(st.integers(0, 3))
        a = cylpoint(free != 0, free != 1, free != 2)
        if draw(st.booleans()):
            free2 = draw(st.integers(0, 3))
            b = cylpoint(free2 != 0, free2 != 1, free2 != 2)
        else:
            b = xyz(-1.4, 1.4, -0.4, 1.4)
        return {"cls": cls, "a": a, "b": b, "back": _back(draw)}
    if cls == "halfplane":
        a = cylpoint(draw(st.booleans()), True, draw(st.booleans()))
        rel = [draw(st.sampled_from([1.0, -1.0, 0.3])), 0.0, draw(st.sampled_from([0.0, 1.0])) * draw(_fl(-1.5, 1.5))]
        return {"cls": cls, "a": a, "b": {"rel": rel}, "back": _back(draw)}
    if cls == "throughaxis":
        a = {"xyz": [0.0, 0.0, draw(_fl(0.0, 1.0))]}
        if draw(st.booleans()):
            b = cylpoint(draw(st.booleans()), draw(st.booleans()), draw(st.booleans()))
        else:
            b = xyz(-1.4, 1.4, -0.4, 1.4)
        return {"cls": cls, "a": a, "b": b, "back": _back(draw)}
    ints = [draw(st.integers(0, 3)) == 0 for _ in range(3)]
    a = {"cyl": [(draw(st.integers(1, nr - 1)) if (ints[0] and nr > 1) else draw(_fl(0.02, nr - 0.02))),
                 (draw(st.integers(0, nang - 1)) if ints[1] else draw(_fl(0.0, float(nang)))),
                 (draw(st.integers(1, nz - 1)) if (ints[2] and nz > 1) else draw(_fl(0.02, nz - 0.02)))],
         "off": [off() if (ints[0] and nr > 1) else 0.0, off() if ints[1] else 0.0, off() if (ints[2] and nz > 1) else 0.0]}
    b = {"rel": [draw(_fl(-1.0, 1.0)) if draw(st.integers(0, 3)) else 0.0 for _ in range(3)]}
    return {"cls": cls, "a": a, "b": b, "back": 0.0}


@st.composite
def cyl_case(draw):
    _n = st.one_of(st.integers(1, 6), st.integers(1, deep(6, 14)))
    nr, nz = draw(_n), draw(_n)
    nphi = draw(st.sampled_from([1, 1, 2, 3, 4, 5, 6, 7, 8]))
    period = draw(st.sampled_from(PERIODS)) if nphi > 1 else draw(st.sampled_from([360.0, 360.0, 360.0, 90.0]))
    dr, dz = _size(draw), _size(draw)
    rmin = draw(st.sampled_from([0.0, 0.0, 0.0, 0.05, 0.5, 3.0])) if draw(st.integers(0, 2)) else draw(_fl(0.05, 3.0))
    nsurf = nphi * int(round(360.0 / period)) if nphi > 1 else 0
    case = {"kind": "cyl", "n": [nr, nphi, nz], "dr": dr, "dz": dz, "rmin": rmin, "period": period,
            "step": draw(st.sampled_from(STEPS)), "vox": _voxels(draw, nr * nphi * nz),
            "via": draw(st.sampled_from(["ctor", "setter"])), "place": _placement(draw),
            "wl": [draw(_fl(100.0, 900.0)), draw(_fl(0.01, 300.0))],
            "krot": draw(st.integers(1, 7)),
            "rays": [draw(_cyl_ray([nr, nphi, nz], nsurf)) for _ in range(NRAYS)], "opt": _options(draw, nr * nphi * nz)}
    if rmin == 0 and is_open(AXIS_HOLE):
        # known finding: rays that pass the axis closer than 10 radii of the artificial axis hole are taken out
        grid, _, _ = _geometry(case)
        for ray in case["rays"]:
            o, u = _local_ray(case, grid, ray)
            if CH._cyl_ray(o, u)[2] < 10 * grid.r_lo:
                ray["excluded_known"] = True
    return case


# ------------------------------------------------------------------------------------------------ building
def _ray_matrix(place):
    t, r = place["t"], place["r"]
    return translate(*t) * rotate_z(r[2]) * rotate_y(r[1]) * rotate_x(r[0])


def _geometry(case):
    """oracle grid + constructor arguments, from the documented definitions."""
    if case["kind"] == "box":
        n, d = case["n"], case["d"]
        extent = [n[k] * d[k] for k in range(3)]
        grid = CH.BoxGrid(n, extent)
        default_step = 0.1 * min(grid.d)
        cells = min(grid.d)
        args = dict(xmax=extent[0], ymax=extent[1], zmax=extent[2], nx=n[0], ny=n[1], nz=n[2])
    else:
        nr, nphi, nz = case["n"]
        r_in = case["rmin"]
        r_out = r_in + nr * case["dr"]
        height = nz * case["dz"]
        grid = CH.CylGrid(nr, nphi, nz, r_in, r_out, height, case["period"], axis_hole=is_open(AXIS_HOLE))
        default_step = 0.1 * min(grid.dr, grid.dz)
        cells = min(grid.dr, grid.dz)
        args = dict(radius_outer=r_out, height=height, n_radius=nr, n_height=nz, radius_inner=r_in, n_polar=nphi, period=case["period"])
    step = default_step if case["step"] is None else case["step"] * cells
    return grid, args, step


def _voxel_arrays(case, shape):
    """(expected voxel_map int array, mask array or None, map array or None) as handed to the code."""
    vox = case["vox"]
    if vox["kind"] == "none":
        return np.arange(int(np.prod(shape)), dtype=np.int64).reshape(shape), None, None
    cells = np.array(vox["cells"], dtype=np.int64).reshape(shape)
    if vox["kind"] == "mask":
        m = cells > 0
        vm = -np.ones(shape, dtype=np.int64)
        vm[m] = np.arange(int(m.sum()))
        return vm, (cells.astype(np.int64) if vox.get("int") else m), None
    return cells, None, cells.copy()


def _build(cls, args, step_given, step, mask, vmap, via, place):
    world = World()
    tr = _ray_matrix(place)
    if via == "ctor":
        kw = dict(args)
        if step_given:
            kw["step"] = step
        obj = cls(mask=mask, voxel_map=vmap, parent=world, transform=tr, **kw)
    else:
        obj = cls(**args)
        if vmap is not None:
            obj.voxel_map = vmap
        elif mask is not None:
            obj.mask = mask
        if step_given:
            obj.step = step
        obj.transform = tr
        obj.parent = world
    return world, obj


_DEFAULT_OPT = {"equiv": None, "equiv_var": 0, "build": "object", "integ": "plain", "ms": 2, "numerical": False, "form": "c64", "scalars": "float", "reuse": [], "poke": False}


def _form(arr, form):
    """the same mask / voxel map in another accepted container form (dtype, memory layout)."""
    if arr is None:
        return None
    if form == "i32":
        return arr.astype(np.int32)
    if form == "f64":
        return arr.astype(np.float64)
    if form == "fortran":
        return np.asfortranarray(arr)
    if form == "strided":
        big = np.zeros(arr.shape[:-1] + (2 * arr.shape[-1],), dtype=arr.dtype)
        big[..., ::2] = arr
        return big[..., ::2]
    return arr


def _scalars(args, form):
    """constructor scalars as Python floats (canonical), Python ints where integer-valued, or numpy scalars."""
    if form == "float":
        return dict(args)
    out = {}
    for k, v in args.items():
        if isinstance(v, int):
            out[k] = np.int64(v) if form == "numpy" else v
        elif form == "numpy":
            out[k] = np.float64(v)
        else:
            out[k] = int(v) if float(v).is_integer() else v
    return out


def _construct(case, grid, args, step, opt, mask, vmap):
    """build the object along the path described by opt; returns world, rt (a RayTransferObject)."""
    box = case["kind"] == "box"
    world = World()
    tr = _ray_matrix(case["place"])
    icls = CartesianRayTransferIntegrator if box else CylindricalRayTransferIntegrator
    ms, ms_done = opt["ms"], opt["ms"] == 2
    step_in_ctor = opt["integ"] == "plain" and case["step"] is not None
    sargs = _scalars(args, opt["scalars"])
    sstep = step
    if opt["scalars"] == "int" and float(step).is_integer():
        sstep = int(step)
    elif opt["scalars"] == "numpy":
        sstep = np.float64(step)
    if opt["build"] == "object":
        cls = RayTransferBox if box else RayTransferCylinder
        if case["via"] == "ctor":
            kw = dict(sargs)
            if step_in_ctor:
                kw["step"] = sstep
            if box and opt["scalars"] != "numpy":        # positional form of the documented signature
                rt = cls(kw.pop("xmax"), kw.pop("ymax"), kw.pop("zmax"), kw.pop("nx"), kw.pop("ny"), kw.pop("nz"),
                         mask=mask, voxel_map=vmap, parent=world, transform=tr, **kw)
            else:
                rt = cls(mask=mask, voxel_map=vmap, parent=world, transform=tr, **kw)
        else:
            rt = cls(**sargs)
            if vmap is not None:
                rt.voxel_map = vmap
            elif mask is not None:
                rt.mask = mask
            if step_in_ctor:
                rt.step = sstep
            rt.transform = tr
            rt.parent = world
    else:
        integrator = None
        if step_in_ctor or (opt["integ"] == "plain" and ms != 2):
            integrator = icls(sstep, ms) if case["via"] == "ctor" else icls(step=sstep, min_samples=ms)
            ms_done = True
        shape = tuple(np.int64(v) for v in grid.shape) if opt["scalars"] == "numpy" else tuple(grid.shape)
        if box:
            material = CartesianRayTransferEmitter(shape, tuple(grid.d), voxel_map=vmap, mask=mask, integrator=integrator)
            prim = Box(lower=Point3D(0, 0, 0), upper=Point3D(*grid.upper), material=material)
        else:
            material = CylindricalRayTransferEmitter(shape, (grid.dr, grid.dphi, grid.dz), voxel_map=vmap, mask=mask,
                                                     integrator=integrator, rmin=grid.rmin)
            outer = Cylinder(grid.r_hi, grid.z_hi)
            prim = Subtract(outer, Cylinder(grid.r_lo, grid.z_hi), material=material) if grid.r_lo > 0 else outer
            prim.material = material
        rt = RayTransferObject(prim)
        rt.transform = tr
        rt.parent = world
    if opt["integ"] == "rt.step":
        rt.step = sstep
    elif opt["integ"] == "integrator.step":
        rt.material.integrator.step = sstep
    elif opt["integ"] == "new":
        rt.material.integrator = icls(sstep, min_samples=ms)
        ms_done = True
    if not ms_done:
        rt.material.integrator.min_samples = ms
    if opt["numerical"]:
        ni = NumericalIntegrator(step=step, min_samples=ms)
        ni.step = step                               # the constructor keeps only float32 precision of the step
        rt.material.integrator = ni
    return world, rt


def _unit(v):
    nrm = math.sqrt(sum(c * c for c in v))
    return [c / nrm for c in v], nrm


def _local_ray(case, grid, ray):
    """origin and unit direction in the local frame of the grid, from the constructive description."""
    if case["kind"] == "box":
        def point(p):
            return [p["lat"][k] * grid.d[k] + p["off"][k] for k in range(3)], None
        basis = lambda a: ([1.0, 0, 0], [0, 1.0, 0], [0, 0, 1.0])      # noqa: E731
    else:
        r_out = grid.rmin + grid.shape[0] * grid.dr
        height = grid.shape[2] * grid.dz
        dang = 360.0 / grid.nsurf if grid.nsurf else 360.0

        def point(p):
            if "xyz" in p:
                return [p["xyz"][0] * r_out, p["xyz"][1] * r_out, p["xyz"][2] * height], None
            rl, pl, zl = p["cyl"]
            r = max(grid.rmin + rl * grid.dr + p["off"][0], 0.0)
            ph = math.radians(pl * dang)
            c, s = math.cos(ph), math.sin(ph)
            return [r * c - p["off"][1] * s, r * s + p["off"][1] * c, zl * grid.dz + p["off"][2]], ph

        def basis(ph):
            if ph is None:
                return [1.0, 0, 0], [0, 1.0, 0], [0, 0, 1.0]
            c, s = math.cos(ph), math.sin(ph)
            return [c, s, 0.0], [-s, c, 0.0], [0, 0, 1.0]
    a, pha = point(ray["a"])
    if "rel" in ray["b"]:
        e1, e2, e3 = basis(pha)
        rel = ray["b"]["rel"]
        dvec = [rel[0] * e1[k] + rel[1] * e2[k] + rel[2] * e3[k] for k in range(3)]
    else:
        b, _ = point(ray["b"])
        dvec = [b[k] - a[k] for k in range(3)]
    if math.sqrt(sum(c * c for c in dvec)) < 1e-6:
        dvec = [0.3, 0.5, 0.7]
    u, _ = _unit(dvec)
    back = ray["back"] * grid.rb + (1.0 if ray["back"] >= 3.0 else 0.0)
    o = [a[k] - back * u[k] for k in range(3)]
    return o, u


def _trace(ctx, world, bins, M, o, u, wl, raw=False):
    ow = M @ np.array([o[0], o[1], o[2], 1.0])
    uw = M[:3, :3] @ np.array(u)
    return _trace_world(ctx, world, bins, ow, uw, wl, raw)


def _trace_world(ctx, world, bins, ow, uw, wl, raw=False):
    with ctx.cut("trace"):
        ray = Ray(origin=Point3D(float(ow[0]), float(ow[1]), float(ow[2])), direction=Vector3D(float(uw[0]), float(uw[1]), float(uw[2])),
                  min_wavelength=wl[0], max_wavelength=wl[0] + wl[1], bins=bins)
        sp = ray.trace(world)
        e = np.array(sp.samples, dtype=float)
    ctx.check(e.shape == (bins,), "trace", lambda: "spectrum has %r samples, bins = %d" % (e.shape, bins))
    ctx.check(bool(np.all(np.isfinite(e))) and bool(np.all(e >= 0)), "trace", lambda: "entries not finite / negative: %r" % (e,))
    return (e, sp.samples) if raw else e


def _check_bounds(ctx, e, B, what, lab, scheme="midpoint"):
    """statement-level interval relations + the midpoint replica for one traced row."""
    slack = 1e-9 * (1.0 + B.length)
    up = B.hi + np.maximum(2 * B.dtmax, B.tol_hi) + slack
    dn = B.lo - np.maximum(2 * B.dtmax, B.tol_lo) - slack
    never = B.hi == 0.0
    if np.any(e[never] != 0.0):
        s = int(np.nonzero(never & (e != 0.0))[0][0])
        ctx.fail(what + "zero", "source %d is never touched by the ray but receives %r" % (s, float(e[s])))
    bad = (e > up) | (e < dn)
    if np.any(bad):
        s = int(np.nonzero(bad)[0][0])
        ctx.fail(what + "cell", "source %d: entry %r outside [%r - tol, %r + tol], tol = max(2 dt = %r, k dt = %r / %r), sub-chords %d, "
                 "chord length %r" % (s, float(e[s]), float(B.lo[s]), float(B.hi[s]), 2 * float(B.dtmax[s]), float(B.tol_lo[s]),
                                      float(B.tol_hi[s]), int(B.nsub[s]), B.length))
    tot = float(e.sum())
    if not (B.tot_lo - B.tot_tol_lo - slack <= tot <= B.tot_hi + B.tot_tol_hi + slack):
        ctx.fail(what + "total", "sum of entries %r outside [%r - %r, %r + %r] (chord in active cells; chord length %r)"
                 % (tot, B.tot_lo, B.tot_tol_lo, B.tot_hi, B.tot_tol_hi, B.length))
    if B.sch_lo is not None:
        bad = (e > B.sch_hi + slack + B.w_total) | (e < B.sch_lo - slack - B.w_total)
        if np.any(bad):
            s = int(np.nonzero(bad)[0][0])
            ctx.fail(what + "scheme-" + scheme, "source %d: entry %r, but the documented %s samples give between %r and %r (dt <= %r)"
                     % (s, float(e[s]), scheme, float(B.sch_lo[s]), float(B.sch_hi[s]), B.dt_all))
        if lab is not None and B.length > 0:
            ctx.label("scheme-checked")
    elif lab is not None and B.scheme_skip:
        ctx.label("scheme-skipped:" + B.scheme_skip)
    if lab is not None:
        if np.any(B.nsub > 2):
            ctx.label("cell:subchords>2")
            err = np.maximum(e - B.hi, B.lo - e)
            if np.any(err > 2 * B.dtmax + slack):
                ctx.label("cell:err>2dt")


def _apply_vox(rt, mask_f, vmap_f):
    if vmap_f is not None:
        rt.voxel_map = vmap_f
    else:
        rt.mask = mask_f               # None = all cells, numbered in C order


def run(case, ctx):
    kind = case["kind"]
    opt = dict(_DEFAULT_OPT, **case.get("opt", {}))
    grid, args, step = _geometry(case)
    shape = grid.shape
    vm, mask, vmap = _voxel_arrays(case, shape)
    fmap = opt.get("form_map", opt["form"])
    mask_f, vmap_f = _form(mask, opt["form"]), _form(vmap, fmap)
    if "form_map" in opt and vmap is not None:
        ctx.label("excluded_known")
    snap = None if (vmap_f if vmap_f is not None else mask_f) is None else np.array(vmap_f if vmap_f is not None else mask_f)
    nbins = int(vm.max()) + 1
    ms, scheme = opt["ms"], ("trapezium" if opt["numerical"] else "midpoint")
    with ctx.cut("construct"):
        world, rt = _construct(case, grid, args, step, opt, mask_f, vmap_f)
        got_bins, got_map, got_mask, got_step = rt.bins, np.array(rt.voxel_map), np.array(rt.mask), rt.step
        inv = rt.invert_voxel_map()
        mat = rt.material
        got_ms = mat.integrator.min_samples
        geo = [tuple(mat.grid_shape), tuple(mat.grid_steps)] + ([mat.dx, mat.dy, mat.dz] if kind == "box" else
                                                                [mat.dr, mat.dphi, mat.dz, mat.period, mat.rmin])
    # ---- bookkeeping
    ctx.check(got_bins == nbins and rt.bins == got_bins, "bins", lambda: "bins = %r, voxel map has max %d" % (got_bins, nbins - 1))
    ctx.check(got_map.shape == shape and np.array_equal(got_map, vm) and got_map.dtype == np.int32, "voxel_map",
              lambda: "voxel_map differs from the given map / mask numbering (form %s)" % opt["form"])
    ctx.check(np.array_equal(got_mask, vm >= 0) and np.array_equal(np.array(rt.mask), got_mask), "mask", "mask is not (voxel_map > -1)")
    ctx.close(got_step, step, "step", rtol=1e-12)
    ctx.check(got_ms == ms, "min_samples", lambda: "integrator.min_samples = %r, set %r" % (got_ms, ms))
    ctx.check(len(inv) == nbins and all(np.array_equal(np.array(inv[s]), np.array(np.where(vm == s))) for s in range(nbins)),
              "invert_voxel_map", "invert_voxel_map() is not the inverse of voxel_map")
    want_geo = [tuple(shape), tuple(grid.d)] + list(grid.d) if kind == "box" else \
        [tuple(shape), (grid.dr, grid.dphi, grid.dz), grid.dr, grid.dphi, grid.dz, grid.period, grid.rmin]
    ctx.check(geo[0] == want_geo[0], "emitter-attributes", lambda: "grid_shape %r != %r" % (geo[0], want_geo[0]))
    ctx.close(list(geo[1]) + geo[2:], list(want_geo[1]) + want_geo[2:], "emitter-attributes", rtol=1e-12)
    vox = case["vox"]
    ctx.label(kind, "map:" + (vox.get("sub") or vox["kind"]), "via:" + case["via"], "step:" + ("default" if case["step"] is None else "%g" % case["step"]),
              "build:" + opt["build"], "integ:" + opt["integ"], "ms:%d" % ms, "scheme:" + scheme, "scalars:" + opt["scalars"])
    if vox["kind"] != "none":
        ctx.label("form:" + (opt["form"] if vmap is None else fmap))
    if kind == "cyl":
        if shape[1] == 1:
            ctx.label("axisymmetric")
        ctx.label("period<360" if case["period"] < 360 else "period=360", "rmin>0" if case["rmin"] > 0 else "rmin=0")
        if case["period"] != int(case["period"]):
            ctx.label("period:fractional")
    elif len(set(shape)) == 3:
        ctx.label("shape:nx!=ny!=nz")
    M = CH.rigid(case["place"]["t"], case["place"]["r"])
    # ---- the one-source-per-cell object over the same active cells (for merged maps)
    world_id = None
    if vox.get("sub") == "merge":
        act = vm >= 0
        with ctx.cut("construct"):
            world_id, rt_id = _construct(case, grid, args, step, dict(opt, form="c64"), act, None)
            bins_id = rt_id.bins
        ident = -np.ones(shape, dtype=np.int64)
        ident[act] = np.arange(int(act.sum()))
        ctx.check(bins_id == int(act.sum()), "bins", lambda: "mask with %d active cells gives bins = %r" % (int(act.sum()), bins_id))
    any_nt = False
    done = []                       # (o, u, chord, first row, raysect's own samples array of the first trace)
    for ray in case["rays"]:
        if ray.get("excluded_known"):
            ctx.label("excluded_known")
            continue
        o, u = _local_ray(case, grid, ray)
        e, raw = _trace(ctx, world, nbins, M, o, u, case["wl"], raw=True)
        ch = CH.chord(grid, o, u)
        ctx.label("ray:" + ray["cls"])
        if abs(u[2]) == 1.0:
            ctx.label("ray:z-parallel")
        if ch.origin_on_boundary:
            ctx.label("ray-skipped:origin-on-primitive-surface")      # raysect decides whether the origin is inside
            continue
        B = CH.bounds(ch, vm, nbins, step, min_samples=ms, scheme=scheme)
        _check_bounds(ctx, e, B, "", kind, scheme)
        done.append((o, u, ch, e, raw))
        if not ch.segs:
            ctx.label("ray:miss")
        if len(ch.segs) > 1:
            ctx.label("ray:segments>1")
        if ch.ambiguous_segmentation:
            ctx.label("ray:ambiguous-segmentation")
        if any(CH.step_count(sg["L"], step, ms, scheme) == (ms if scheme == "midpoint" else ms - 1) and sg["L"] > 0 for sg in ch.segs):
            ctx.label("n=min_samples")
        if world_id is not None:
            e_id = _trace(ctx, world_id, bins_id, M, o, u, case["wl"])
            want = np.zeros(nbins)
            np.add.at(want, vm[act], e_id[ident[act]])
            ctx.close(e, want, "merged-map", rtol=0, atol=1e-9 * (1.0 + B.length),
                      info="entries(map)[s] != sum of entries(one source per cell) over the cells of s")
        if kind == "cyl":
            ang = math.radians(case["krot"] * case["period"])
            c, s = math.cos(ang), math.sin(ang)
            o2 = [c * o[0] - s * o[1], s * o[0] + c * o[1], o[2]]
            u2 = [c * u[0] - s * u[1], s * u[0] + c * u[1], u[2]]
            e2 = _trace(ctx, world, nbins, M, o2, u2, case["wl"])
            _check_bounds(ctx, e2, B, "periodic-", None, scheme)
        fl = ch.flags
        reasons = [k for k in ("edge", "tangent", "starts_inside", "wraps") if fl[k]] + (["masked"] if B.crosses_masked else [])
        if ch.ncells >= 3 and reasons:
            any_nt = True
            ctx.label("ray-nt", *["nt:" + r for r in reasons])
    ctx.nt(any_nt)
    if not done:
        return
    # ---- re-use of the same object: voxel description / step / min_samples changed through the setters between traces
    vm2, step2, ms2 = vm, step, ms
    cells = min(grid.d) if kind == "box" else min(grid.dr, grid.dz)
    for k, chg in enumerate(opt["reuse"]):
        with ctx.cut("reconfigure"):
            if "vox" in chg:
                vm2, m2, v2 = _voxel_arrays(dict(case, vox=chg["vox"]), shape)
                _apply_vox(rt, _form(m2, opt["form"]), _form(v2, fmap))
                ctx.label("reuse:" + ("voxel_map" if v2 is not None else "mask"))
            elif "step" in chg:
                step2 = chg["step"] * cells
                if k % 2:
                    rt.step = step2
                else:
                    rt.material.integrator.step = step2
                ctx.label("reuse:step")
            else:
                ms2 = chg["ms"]
                rt.material.integrator.min_samples = ms2
                ctx.label("reuse:min_samples")
            bins2, map2, stp2 = rt.bins, np.array(rt.voxel_map), rt.step
        nb2 = int(vm2.max()) + 1
        ctx.check(bins2 == nb2 and np.array_equal(map2, vm2), "reuse-bookkeeping", lambda: "after the change: bins %r (expected %d) / voxel_map differs"
                  % (bins2, nb2))
        ctx.close(stp2, step2, "reuse-bookkeeping", rtol=1e-12)
        for (o, u, ch, _, _) in done[:2]:
            e = _trace(ctx, world, nb2, M, o, u, case["wl"])
            _check_bounds(ctx, e, CH.bounds(ch, vm2, nb2, step2, min_samples=ms2, scheme=scheme), "reuse-", None, scheme)
    # ---- setter history with equal active sets: a mask assigned after a merging / permuting voxel_map (and the mirror case)
    # must install exactly what a fresh object built with that last assignment has
    if opt["equiv"]:
        ncell = int(np.prod(shape))
        idx = np.arange(ncell).reshape(shape)
        var = opt["equiv_var"]
        merged = [idx[::-1, ::-1, ::-1].copy(), idx // 2, np.where(idx % 3 == 0, -1, idx // 2)][var]    # permuted / merged / merged + holes
        if merged.max() < 0:
            merged = np.zeros(shape, dtype=np.int64)

        def expect(vm_want, what):
            with ctx.cut("reconfigure"):
                b, mp = rt.bins, np.array(rt.voxel_map)
            nb = int(vm_want.max()) + 1
            ctx.check(b == nb and np.array_equal(mp, vm_want), "setter-history", lambda: "%s: bins %r (a fresh object has %d), voxel_map %s"
                      % (what, b, nb, "equal" if np.array_equal(mp, vm_want) else "differs from the fresh object's"))
            e = _trace(ctx, world, nb, M, done[0][0], done[0][1], case["wl"])
            _check_bounds(ctx, e, CH.bounds(done[0][2], vm_want, nb, step2, min_samples=ms2, scheme=scheme), "setter-history-", None, scheme)

        act = merged >= 0
        ident = -np.ones(shape, dtype=np.int64)
        ident[act] = np.arange(int(act.sum()))
        if opt["equiv"] == "map-then-mask":
            masks = [("obj.mask = obj.mask", None), ("fresh equal boolean mask", act.copy())]
            if act.all():
                masks.append(("all-True mask", np.ones(shape, dtype=bool)))
            for what, m in masks:
                with ctx.cut("reconfigure"):
                    rt.voxel_map = merged.copy()
                expect(merged, "voxel_map assigned")
                with ctx.cut("reconfigure"):
                    rt.mask = rt.mask if m is None else m
                expect(ident, "after a %s voxel_map, %s" % (["permuting", "merging", "merging"][var], what))
            ctx.label("history:map-then-mask", "history:" + ["permuted", "merged-full", "merged-holes"][var if not act.all() or var < 2 else 1])
            if act.all():
                ctx.label("history:all-true-mask")
        else:
            with ctx.cut("reconfigure"):
                rt.mask = act.copy()
            expect(ident, "mask assigned")
            with ctx.cut("reconfigure"):
                rt.voxel_map = ident.copy()
            expect(ident, "after a mask, the equal one-source-per-cell voxel_map")
            with ctx.cut("reconfigure"):
                rt.voxel_map = merged.copy()
            expect(merged, "after a mask, a voxel_map with the same active cells")
            ctx.label("history:mask-then-map")
    # ---- back to the first configuration: the first row must come back bit for bit; rows handed out earlier are intact
    o, u, ch, e0, raw0 = done[0]
    if opt["reuse"] or opt["equiv"]:
        with ctx.cut("reconfigure"):
            _apply_vox(rt, mask_f, vmap_f)
            rt.step = step
            rt.material.integrator.min_samples = ms
    e = _trace(ctx, world, nbins, M, o, u, case["wl"])
    ctx.check(np.array_equal(e, e0), "repeat", lambda: "the first ray traced again in the first configuration gives a different row: max diff %r"
              % float(np.abs(e - e0).max()))
    ctx.check(all(np.array_equal(np.array(r), ee) for (_, _, _, ee, r) in done), "repeat", "a spectrum returned by an earlier trace was modified later")
    ctx.label("repeat")
    # ---- caller-owned arrays
    arr = vmap_f if vmap_f is not None else mask_f
    if arr is not None:
        ctx.check(arr.dtype == snap.dtype and np.array_equal(arr, snap), "caller-data", "the mask / voxel_map array passed in was modified")
        if opt["poke"]:
            arr[...] = (snap == 0) if vmap_f is None else np.where(snap >= 0, -1, 0)
            with ctx.cut("construct"):
                map3, bins3 = np.array(rt.voxel_map), rt.bins
            ctx.check(bins3 == nbins and np.array_equal(map3, vm), "caller-data", "modifying the caller's array afterwards changed the object's voxel_map / bins")
            e = _trace(ctx, world, nbins, M, o, u, case["wl"])
            ctx.check(np.array_equal(e, e0), "caller-data", "modifying the caller's array afterwards changed the traced row")
            ctx.label("caller:poke")


# ------------------------------------------------------------------------------------------------ pipelines
SHAPES2D = [[1, 1], [1, 2], [2, 1], [1, 3], [2, 2], [3, 2], [2, 3]]      # min(shape) <= 2: VectorCamera does not jitter edge pixels
POOL = 6


class _LineObserver(Observer1D):
    """Smallest deterministic 1-D observer: pixel p launches pixel_samples copies of the fixed ray rays[p]."""

    def __init__(self, rays, sensitivity, pipelines, **kw):
        self.rays = rays
        self.sens = sensitivity
        super().__init__(len(rays), FullFrameSampler1D(), pipelines, **kw)

    def _generate_rays(self, pixel, template, ray_count):
        o, d = self.rays[pixel]
        return [(template.copy(o, d), 1.0) for _ in range(ray_count)]

    def _pixel_sensitivity(self, pixel):
        return self.sens


def _view(draw, dim):
    if dim == 0:
        shape = []
    elif dim == 1:
        shape = [draw(st.integers(1, 4))]
    else:
        shape = draw(st.sampled_from(SHAPES2D))
    npx = int(np.prod(shape)) if shape else 1
    return {"shape": shape, "idx": [draw(st.integers(0, POOL - 1)) for _ in range(npx)]}


@st.composite
def pipe_case(draw):
    obj = draw(box_case()) if draw(st.booleans()) else draw(cyl_case())
    if obj["kind"] == "box":
        extra = [draw(_box_ray(obj["n"])) for _ in range(POOL - NRAYS)]
        ncell = obj["n"][0] * obj["n"][1] * obj["n"][2]
    else:
        nr, nphi, nz = obj["n"]
        nsurf = nphi * int(round(360.0 / obj["period"])) if nphi > 1 else 0
        extra = [draw(_cyl_ray(obj["n"], nsurf)) for _ in range(POOL - NRAYS)]
        ncell = nr * nphi * nz
    obj["rays"] = [r for r in obj["rays"] + extra]
    for r in obj["rays"]:
        r.pop("excluded_known", None)
    dim = draw(st.integers(0, 2))
    stages = [{"view": _view(draw, dim)}]
    for _ in range(2):
        st_ = {}
        for ch in draw(st.lists(st.sampled_from(["vox", "vox", "place", "view", "view", "kind", "samples"]), min_size=1, max_size=2, unique=True)):
            if ch == "vox":
                st_["vox"] = _voxels(draw, ncell)
            elif ch == "place":
                st_["place"] = _placement(draw)
            elif ch == "view":
                st_["view"] = _view(draw, dim)
            elif ch == "kind":
                st_["kind"] = draw(st.sampled_from(["power", "radiance"]))
            else:
                st_["samples"] = draw(st.integers(1, 3))
        stages.append(st_)
    return {"obj": obj, "dim": dim, "kind": draw(st.sampled_from(["power", "radiance", "Power"])),
            "sens": draw(st.sampled_from([1.0, 0.5, 2.5])), "samples": draw(st.integers(1, 3)),
            "spt": draw(st.sampled_from([1, 250])), "stages": stages}


def _sightline_matrix(ow, uw):
    fwd = Vector3D(float(uw[0]), float(uw[1]), float(uw[2]))
    up = Vector3D(1, 0, 0) if abs(fwd.z) > 0.9 else Vector3D(0, 0, 1)
    return translate(float(ow[0]), float(ow[1]), float(ow[2])) * rotate_basis(fwd, up)


def run_pipe(case, ctx):
    obj, dim = case["obj"], case["dim"]
    kind = obj["kind"]
    grid, args, step = _geometry(obj)
    cls = RayTransferBox if kind == "box" else RayTransferCylinder
    wl = obj["wl"]
    vm, mask, vmap = _voxel_arrays(obj, grid.shape)
    with ctx.cut("construct"):
        world, rt = _build(cls, args, obj["step"] is not None, step, mask, vmap, obj["via"], obj["place"])
        pcls = [RayTransferPipeline0D, RayTransferPipeline1D, RayTransferPipeline2D][dim]
        pipe = pcls("row-%d" % dim, case["kind"]) if case["sens"] == 0.5 else pcls(kind=case["kind"])   # positional / keyword / default name
        got_name, got_kind = pipe.name, pipe.kind
    ctx.check(got_name == ("row-%d" % dim if case["sens"] == 0.5 else "RayTransferPipeline%dD" % dim) and got_kind == case["kind"].lower(),
              "pipeline-attributes", lambda: "name %r, kind %r" % (got_name, got_kind))
    handed = []
    pkind, samples, sens = case["kind"].lower(), case["samples"], case["sens"]
    common = dict(spectral_bins=1, min_wavelength=wl[0], max_wavelength=wl[0] + wl[1], pixel_samples=samples, quiet=True)
    place = obj["place"]
    obs = None
    view, view_frame = None, None
    ctx.label("dim:%d" % dim, kind, pkind)
    nonzero, prev, differ = 0, None, 0
    atol = 1e-9 * (1.0 + grid.rb) * max(1.0, sens)
    for k, stg in enumerate(case["stages"] + [{"control": True}]):
        # ---- apply the changes of this stage through the public setters
        with ctx.cut("reconfigure"):
            if "vox" in stg:
                o2 = dict(obj, vox=stg["vox"])
                vm, mask, vmap = _voxel_arrays(o2, grid.shape)
                if vmap is not None:
                    rt.voxel_map = vmap
                else:
                    rt.mask = mask
                ctx.label("change:" + ("map" if vmap is not None else "mask"))
            if "place" in stg:
                place = stg["place"]
                rt.transform = _ray_matrix(place)
                ctx.label("change:place")
            if "kind" in stg:
                pipe.kind = stg["kind"]
                pkind = stg["kind"]
                ctx.label("change:kind")
            if "samples" in stg:
                samples = stg["samples"]
                ctx.label("change:samples")
            if "control" in stg:
                frozen = np.array(pipe.matrix)
                old = pipe
                pipe = [RayTransferPipeline0D, RayTransferPipeline1D, RayTransferPipeline2D][dim](kind=pkind)
        if "view" in stg:
            view, view_frame = stg["view"], place            # the observer looks along rays defined in the object's current frame
            if k > 0:
                ctx.label("change:view")
        nbins = int(vm.max()) + 1
        # ---- the world-frame rays of the observer
        M = CH.rigid(view_frame["t"], view_frame["r"])
        wrays = []
        for i in view["idx"]:
            o, u = _local_ray(obj, grid, obj["rays"][i])
            wrays.append((M @ np.array([o[0], o[1], o[2], 1.0]), M[:3, :3] @ np.array(u)))
        with ctx.cut("observe"):
            if dim == 0:
                tr = _sightline_matrix(*wrays[0])
                if obs is None:
                    obs = SightLine(sensitivity=sens, pipelines=[pipe], parent=world, transform=tr, render_engine=SerialEngine(),
                                    samples_per_task=case["spt"], **common)
                obs.transform = tr
                p0, d0 = Point3D(0, 0, 0).transform(obs.to_root()), Vector3D(0, 0, 1).transform(obs.to_root())
                wrays = [(np.array([p0.x, p0.y, p0.z]), np.array([d0.x, d0.y, d0.z]))]
            elif dim == 1:
                lrays = [(Point3D(*[float(v) for v in ow[:3]]), Vector3D(*[float(v) for v in uw])) for ow, uw in wrays]
                if obs is None:
                    obs = _LineObserver(lrays, sens, [pipe], parent=world, render_engine=SerialEngine(), **common)
                obs.rays = lrays
                obs.pixels = len(lrays)
            else:
                if obs is not None:
                    obs.parent = None
                sh = view["shape"]
                po = np.empty(sh, dtype=object)
                pd = np.empty(sh, dtype=object)
                for j, (ow, uw) in enumerate(wrays):
                    po[j // sh[1], j % sh[1]] = Point3D(*[float(v) for v in ow[:3]])
                    pd[j // sh[1], j % sh[1]] = Vector3D(*[float(v) for v in uw])
                obs = VectorCamera(po, pd, frame_sampler=FullFrameSampler2D(), pipelines=[pipe], sensitivity=sens, parent=world)
                obs.render_engine = SerialEngine()
                obs.quiet = True
                obs.min_wavelength, obs.max_wavelength = 1e-3, wl[0] + wl[1]
                obs.min_wavelength = wl[0]
            obs.pipelines = [pipe]
            obs.pixel_samples = samples
            obs.spectral_bins = rt.bins
            obs.observe()
            got = np.array(pipe.matrix, dtype=float)
            handed.append((pipe.matrix, got))
        # ---- expectation: the same rays traced directly, in the current configuration
        rows = np.array([_trace_world(ctx, world, nbins, ow, uw, wl) for ow, uw in wrays])
        want = rows * (sens if pkind == "power" else 1.0)
        want = want.reshape(tuple(view["shape"]) + (nbins,))
        what = "pipeline%dD-%s" % (dim, "control" if "control" in stg else "observe%d" % (k + 1))
        ctx.check(got.shape == want.shape, what, lambda: "matrix shape %r, expected %r" % (got.shape, want.shape))
        ctx.close(got, want, what, rtol=0, atol=atol, info="(kind %s, sensitivity %r, pixel_samples %d; matrix row(s) vs. Ray.trace of the "
                  "same ray(s) in the current configuration)" % (pkind, sens, samples))
        if "control" in stg:
            ctx.close(got, frozen, what, rtol=0, atol=atol, info="(fresh pipeline vs. the pipeline used three times)")
            ctx.check(np.array_equal(np.array(old.matrix), frozen), what, "the detached pipeline's matrix changed while another pipeline was used")
        else:
            if float(np.abs(want).max()) > 0:
                nonzero += 1
            if prev is not None and (prev.shape != want.shape or not np.allclose(prev, want, rtol=0, atol=atol)):
                differ += 1
            prev = want
    ctx.check(all(np.array_equal(np.array(ref), cp) for ref, cp in handed), "pipeline-matrix-intact",
              "a matrix handed out by an earlier observe() was modified by a later one")
    ctx.nt(nonzero >= 2 and differ >= 1)


SHARDS = {"quick": 8, "thorough": 16}
SUBCHECKS = {
    "box": Given(box_case, run, quick=800, thorough=30000),
    "cyl": Given(cyl_case, run, quick=1200, thorough=45000),
    "pipelines": Given(pipe_case, run_pipe, quick=320, thorough=8000),
}
