"""C06 - rate repository: last write wins per key, siblings untouched, no stray files (history property)."""
import atexit
import os
import shutil
import tempfile

import numpy as np
from hypothesis import strategies as st

from ..core import Machine, Violation

# HOME is redirected *before* cherab.openadas is imported: the default repository path is computed at
# import time, so any write that forgets the repository_path argument lands in this scratch HOME.
_SCRATCH_HOME = tempfile.mkdtemp(prefix="vf_c06_home_")
os.environ["HOME"] = _SCRATCH_HOME
atexit.register(shutil.rmtree, _SCRATCH_HOME, True)

from cherab.core.atomic import elements as E  # noqa: E402
from cherab.openadas import repository as R  # noqa: E402
from cherab.openadas.repository import utility as RU  # noqa: E402
from . import c08 as ADF  # noqa: E402  (independent ADF writers + install helpers; its own HOME redirection is harmless here)


def _install_adf11(cls, el, rel, adas, repo, via):
    """install_adf11<cls> directly, or through the batch front-end install_files (which repository.populate() uses)."""
    from cherab.openadas import install as I
    from cherab.core.atomic import elements as E
    args = (E.hydrogen, 0, el, rel) if cls == "ccd" else (el, rel)
    if via == "files":
        return ADF._quiet(I.install_files, {"adf11" + cls: (args,)}, download=False, repository_path=repo, adas_path=adas)
    return ADF._quiet(getattr(I, "install_adf11" + cls), *args, download=False, repository_path=repo, adas_path=adas)

ID = "C06"
RULE = ("Hypothesis RuleBasedStateMachine over a fresh temporary repository: rules are every add_*/update_* function of "
        "the 14 rate families (update_* batched over several keys), the six install_adf11* front-ends and install_adf15 fed by independent ADF writers, rejected updates (bad shape / charge > Z / non-Element "
        "species) and reads; a dict keyed by (family, symbol.lower(), charge, ..., lower-cased transition) is the reference "
        "model. After every step the touched keys and one sibling are read back, at the end every model key is read back "
        "bit for bit, never-written keys must raise RuntimeError, the file set must equal the one implied by the model, and "
        "the scratch HOME must stay empty. Non-trivial = history with >=2 writes into the same JSON file under different "
        "keys, or an overwrite of an existing key, or a rejected update after a successful write.")
ASSUMPTIONS = ["ADF11-style families take the table under the key 'rates' (what install.py passes), all others 'rate'",
               "finite float64 values only (no NaN/inf): JSON round trip of NaN is outside the stated property",
               "HOME redirection before import captures every write that ignores repository_path"]
REQUIRED_LABELS = ["machine:overwrite", "machine:same-file-siblings", "machine:rejected", "machine:w:install11:scd", "machine:w:install11:ccd", "machine:install11:via-files", "machine:reject:content-into-existing-file", "machine:repo-path:unusual", "machine:scalar-form:f32", "machine:scalar-form:i64", "machine:scalar-form:0d", "machine:install15"]

SPECIES = ["hydrogen", "deuterium", "tritium", "helium", "helium3", "carbon", "neon", "argon"]
SP = {n: getattr(E, n) for n in SPECIES}
TRANSITIONS = [[3, 2], [4, 2], [2, 1], ["3", "2"], ["2s1 3p1 3P4.0", "2s1 3s1 3S1.0"], ["2S1 3P1 3p4.0", "2s1 3s1 3S1.0"],
               ["N=8", "n=7"], ["n=8", "N=7"], [5, 4],
               # look-alikes: different lower-cased strings, hence different keys, whatever number they may spell
               ["03", "2"], [" 3", "2"], ["3", "2 "], ["+3", "2"], ["3_0", "2"], [30, 2], ["3.0", "2"], ["3", "2.0"]]

F_ADF11 = {"ionisation": ("add_ionisation_rate", "update_ionisation_rates", "get_ionisation_rate", "ionisation/%s.json"),
           "recombination": ("add_recombination_rate", "update_recombination_rates", "get_recombination_rate", "recombination/%s.json"),
           "line_power": ("add_line_power_rate", "update_line_power_rates", "get_line_radiated_power_rate", "radiated_power/line/%s.json"),
           "continuum_power": ("add_continuum_power_rate", "update_continuum_power_rates", "get_continuum_radiated_power_rate", "radiated_power/continuum/%s.json"),
           "cx_power": ("add_cx_power_rate", "update_cx_power_rates", "get_cx_radiated_power_rate", "radiated_power/cx/%s.json")}
F_PEC = {"pec_excitation": ("add_pec_excitation_rate", "excitation", "get_pec_excitation_rate"),
         "pec_recombination": ("add_pec_recombination_rate", "recombination", "get_pec_recombination_rate")}

# ---------------------------------------------------------------------------------------------- strategies
_fl = st.one_of(
    st.floats(allow_nan=False, allow_infinity=False, width=64),
    st.floats(1e-30, 1e30),
    st.sampled_from([0.0, -0.0, 5e-324, 2.2250738585072014e-308, 1.7976931348623157e308, 1e21, 1.1, 0.1, 1 / 3]),
    st.sampled_from([0.0, 1.0, 2.5, float("inf"), float("-inf"), float("nan")]))     # non-finite entries are stored as they are


def _vec(n):
    return st.lists(_fl, min_size=n, max_size=n)


def _table(shape):
    if len(shape) == 1:
        return _vec(shape[0])
    return st.lists(_table(shape[1:]), min_size=shape[0], max_size=shape[0])


_dim = st.integers(1, 5)
_sp = st.integers(0, len(SPECIES) - 1)
_tr = st.integers(0, len(TRANSITIONS) - 1)
_kind = st.sampled_from(["list", "ndarray", "tuple", "f32"])


@st.composite
def adf11_data(draw):
    n, m = draw(_dim), draw(_dim)
    return {"ne": draw(_vec(n)), "te": draw(_vec(m)), "rates": draw(_table((n, m))), "as": draw(_kind)}


@st.composite
def pec_data(draw):
    n, m = draw(_dim), draw(_dim)
    return {"ne": draw(_vec(n)), "te": draw(_vec(m)), "rate": draw(_table((n, m))), "as": draw(_kind)}


@st.composite
def pec3_data(draw):
    n, m, k = draw(st.integers(1, 4)), draw(st.integers(1, 4)), draw(st.integers(1, 3))
    return {"ne": draw(_vec(n)), "te": draw(_vec(m)), "td": draw(_vec(k)), "rate": draw(_table((n, m, k))), "as": draw(_kind)}


@st.composite
def beamcx_data(draw):
    d = {"qref": draw(_fl), "as": draw(_kind), "sas": draw(st.sampled_from(_SFORMS))}
    for x, q in (("eb", "qeb"), ("ti", "qti"), ("ni", "qni"), ("z", "qz"), ("b", "qb")):
        n = draw(_dim)
        d[x], d[q] = draw(_vec(n)), draw(_vec(n))
    return d


@st.composite
def beam_data(draw):
    ne, nn, nt = draw(_dim), draw(_dim), draw(_dim)
    return {"e": draw(_vec(ne)), "n": draw(_vec(nn)), "t": draw(_vec(nt)), "sen": draw(_table((ne, nn))), "st": draw(_vec(nt)),
            "eref": draw(_fl), "nref": draw(_fl), "tref": draw(_fl), "sref": draw(_fl), "as": draw(_kind),
            "sas": draw(st.sampled_from(_SFORMS))}


_SFORMS = ["float", "float", "f64", "f32", "i64", "0d", "int"]

# Every file opened for writing while a repository history runs is recorded (Python audit event "open"): a file that is created
# somewhere else and moved into the repository afterwards leaves no trace in a directory scan, but it was created outside the
# repository path all the same.
import sys as _sys  # noqa: E402

_WATCH = {"on": False, "writes": []}


def _audit(event, args):
    if event == "open" and _WATCH["on"]:
        try:
            path, mode, flags = args[0], args[1], args[2]
            wr = (isinstance(mode, str) and any(c in mode for c in "wax+")) or \
                 (isinstance(flags, int) and flags & (os.O_WRONLY | os.O_RDWR | os.O_CREAT | os.O_APPEND))
            if wr and isinstance(path, (str, bytes)):
                _WATCH["writes"].append(os.fsdecode(path))
        except Exception:  # noqa
            pass


_sys.addaudithook(_audit)


def _scalar(v, sform):
    """(object handed to the repository, float64 the repository must return) for a scalar field: the writers document
    plain numbers; numpy scalars of any width, 0-d arrays and Python ints are numbers too (stored as float(value))."""
    v = float(v)
    if sform == "f64":
        return np.float64(v), v
    if sform == "0d":
        return np.array(v), v
    if sform == "f32":
        with np.errstate(all="ignore"):
            x = np.float32(v)
        if np.isfinite(x):
            return x, float(x)
    if sform in ("i64", "int") and abs(v) < 2.0 ** 53:
        i = int(v)
        return (np.int64(i) if sform == "i64" else i), float(i)
    return v, v


def _conv(x, kind):
    """JSON lists -> the array-like flavour handed to the repository."""
    if kind == "ndarray":
        return np.array(x, dtype=np.float64)
    if kind == "tuple":
        def tup(v):
            return tuple(tup(w) for w in v) if isinstance(v, list) else v
        return tup(x)
    if kind == "f32":
        with np.errstate(over="ignore"):
            a = np.array(x, dtype=np.float64).astype(np.float32)
        a[~np.isfinite(a)] = 1.0
        return a
    return x


def _expect(x, kind):
    return np.array(_conv(x, kind), dtype=np.float64)


def _bits(a):
    return np.ascontiguousarray(np.asarray(a, dtype=np.float64)).view(np.uint64)


ALL_BY_SYMBOL = {}
for _n in dir(E):
    _o = getattr(E, _n)
    if type(_o).__name__ in ("Element", "Isotope"):
        ALL_BY_SYMBOL[_o.symbol.lower()] = _o

# ADF11 class -> (C06 family, charge offset w.r.t. the block's Z1)
INSTALL11 = {"scd": ("ionisation", -1), "acd": ("recombination", 0), "ccd": ("thermal_cx", 0),
             "plt": ("line_power", -1), "prb": ("continuum_power", 0), "prc": ("cx_power", 0)}


def _dedupe(entries, py, mk):
    """Within ONE batched call two different python keys that collapse onto the same repository key (transition
    spellings differing in case, (3, 2) vs ('3', '2')) would make 'most recent' depend on dict order, which the
    property does not define: keep the first python key per repository key. The same python key repeated follows
    python dict semantics (the last value wins). Returns the surviving entries, last value per python key."""
    seen, last = {}, {}
    for e in entries:
        p, m = py(e), mk(e)
        if m in seen and seen[m] != p:
            continue
        seen[m] = p
        last[p] = e
    return list(last.values())


def _charge(sp_index, c):
    """Valid charge 0..Z for species index."""
    return c % (SP[SPECIES[sp_index]].atomic_number + 1)


# ---------------------------------------------------------------------------------------------- model
class Repo:
    """Real repository + reference dict.  Each op is JSON: plain numbers, lists, strings."""

    def __init__(self, ctx, params):
        self.ctx = ctx
        # the repository is a generated directory name (spaces, braces, percent signs, dots, non-ASCII ...) below a fresh top
        # directory; whatever is created anywhere below that top but outside the repository path is a stray file
        self.top = tempfile.mkdtemp(prefix="vf_c06_top_")
        parts = [c for c in (params or {}).get("dir", ["repo"]) if c]
        self.path = os.path.join(self.top, *parts)
        if (params or {}).get("premade", True):
            os.makedirs(self.path)
        if parts != ["repo"]:
            ctx.label("repo-path:unusual")
        _WATCH["writes"] = []
        _WATCH["on"] = True
        self.model = {}      # key tuple -> dict of expected arrays / floats
        self.files = {}      # relative file -> set of keys stored in it
        self.n_over = 0
        self.n_sib = 0
        self.n_rej = 0
        self.n_writes = 0
        self.touched = []

    def close(self):
        _WATCH["on"] = False
        shutil.rmtree(self.top, ignore_errors=True)

    # ---- helpers
    def _tr(self, i):
        t = TRANSITIONS[i]
        return tuple(t), (str(t[0]).lower(), str(t[1]).lower())

    def _store(self, key, rel, value):
        if key in self.model:
            self.n_over += 1
        s = self.files.setdefault(rel, set())
        if any(k != key for k in s):
            self.n_sib += 1
        s.add(key)
        self.model[key] = value
        self.n_writes += 1
        self.touched.append(key)

    def _call(self, what, fn, *a):
        with self.ctx.cut(what):
            return fn(*a, self.path)

    # ---- ADF11-like families: key (family, sym, charge)
    def _adf11_write(self, fam, mode, entries):
        addn, updn, getn, relp = F_ADF11[fam]
        if mode == "add":
            for spi, q, d in entries:
                sp = SP[SPECIES[spi]]
                rate = {"ne": _conv(d["ne"], d["as"]), "te": _conv(d["te"], d["as"]), "rates": _conv(d["rates"], d["as"])}
                self._call(addn, getattr(R, addn), sp, q, rate)
                self._adf11_model(fam, spi, q, d)
        else:
            batch = {}
            for spi, q, d in entries:
                sp = SP[SPECIES[spi]]
                batch.setdefault(sp, {})[q] = {"ne": _conv(d["ne"], d["as"]), "te": _conv(d["te"], d["as"]), "rates": _conv(d["rates"], d["as"])}
            self._call(updn, getattr(R, updn), batch)
            last = {}
            for spi, q, d in entries:
                last[(spi, q)] = d
            for (spi, q), d in last.items():
                self._adf11_model(fam, spi, q, d)

    def _adf11_model(self, fam, spi, q, d):
        sym = SP[SPECIES[spi]].symbol.lower()
        self._store((fam, sym, q), F_ADF11[fam][3] % sym,
                    {"ne": _expect(d["ne"], d["as"]), "te": _expect(d["te"], d["as"]), "rate": _expect(d["rates"], d["as"])})

    OPS = {}

    # generic op for the five ADF11-like families
    def do_adf11(self, a):
        fam, mode, raw = a
        entries = [(spi, _charge(spi, c), d) for spi, c, d in raw]
        if mode == "add":
            entries = entries[:1]
        self._adf11_write(fam, mode, entries)
        self.ctx.label("w:" + fam + ":" + mode)

    OPS["adf11"] = lambda: st.tuples(st.sampled_from(sorted(F_ADF11)), st.sampled_from(["add", "update"]),
                                     st.lists(st.tuples(_sp, st.integers(0, 18), adf11_data()), min_size=1, max_size=3))

    # ---- thermal CX rate: key (family, donor, dq, receiver, rq)
    def do_thermal_cx(self, a):
        mode, raw = a
        if mode == "add":
            di, dq, ri, rq, d = raw[0]
            dq, rq = _charge(di, dq), _charge(ri, rq)
            rate = {"ne": _conv(d["ne"], d["as"]), "te": _conv(d["te"], d["as"]), "rates": _conv(d["rates"], d["as"])}
            with self.ctx.cut("add_thermal_cx_rate"):
                R.add_thermal_cx_rate(SP[SPECIES[di]], dq, SP[SPECIES[ri]], rq, rate, self.path)
            self._tcx_model(di, dq, ri, rq, d)
        else:
            batch = {}
            last = {}
            for di, dq, ri, rq, d in raw:
                dq, rq = _charge(di, dq), _charge(ri, rq)
                rate = {"ne": _conv(d["ne"], d["as"]), "te": _conv(d["te"], d["as"]), "rates": _conv(d["rates"], d["as"])}
                batch.setdefault(SP[SPECIES[di]], {}).setdefault(dq, {}).setdefault(SP[SPECIES[ri]], {})[rq] = rate
                last[(di, dq, ri, rq)] = d
            self._call("update_thermal_cx_rates", R.update_thermal_cx_rates, batch)
            for (di, dq, ri, rq), d in last.items():
                self._tcx_model(di, dq, ri, rq, d)
        self.ctx.label("w:thermal_cx:" + mode)

    def _tcx_model(self, di, dq, ri, rq, d):
        ds, rs = SP[SPECIES[di]].symbol.lower(), SP[SPECIES[ri]].symbol.lower()
        self._store(("thermal_cx", ds, dq, rs, rq), "thermal_cx/%s/%d/%s.json" % (ds, dq, rs),
                    {"ne": _expect(d["ne"], d["as"]), "te": _expect(d["te"], d["as"]), "rate": _expect(d["rates"], d["as"])})

    OPS["thermal_cx"] = lambda: st.tuples(st.sampled_from(["add", "update"]),
                                          st.lists(st.tuples(_sp, st.integers(0, 2), _sp, st.integers(0, 18), adf11_data()), min_size=1, max_size=3))

    # ---- PEC excitation / recombination: key (family, sym, q, transition)
    def do_pec(self, a):
        fam, mode, raw = a
        addn, cls, getn = F_PEC[fam]
        entries = [(spi, _charge(spi, c), tri, d) for spi, c, tri, d in raw]
        entries = _dedupe(entries, lambda e: (e[0], e[1], self._tr(e[2])[0]), lambda e: (e[0], e[1], self._tr(e[2])[1]))
        if mode == "add":
            spi, q, tri, d = entries[0]
            entries = entries[:1]
            rate = {k: _conv(d[k], d["as"]) for k in ("ne", "te", "rate")}
            self._call(addn, getattr(R, addn), SP[SPECIES[spi]], q, self._tr(tri)[0], rate)
        else:
            batch = {}
            for spi, q, tri, d in entries:
                batch.setdefault(SP[SPECIES[spi]], {}).setdefault(q, {})[self._tr(tri)[0]] = {k: _conv(d[k], d["as"]) for k in ("ne", "te", "rate")}
            # the class name is documented as one of 'excitation', 'recombination'
            self._call("update_pec_rates", R.update_pec_rates, {cls: batch})
        for spi, q, tri, d in entries:
            low = self._tr(tri)[1]
            sym = SP[SPECIES[spi]].symbol.lower()
            self._store((fam, sym, q, low), "pec/%s/%s/%d.json" % (cls, sym, q), {k: _expect(d[k], d["as"]) for k in ("ne", "te", "rate")})
        self.ctx.label("w:" + fam + ":" + mode)

    OPS["pec"] = lambda: st.tuples(st.sampled_from(sorted(F_PEC)), st.sampled_from(["add", "update"]),
                                   st.lists(st.tuples(_sp, st.integers(0, 18), _tr, pec_data()), min_size=1, max_size=3))

    # ---- PEC thermal CX
    def do_pec_tcx(self, a):
        mode, raw = a
        entries = [(di, _charge(di, dq) % SP[SPECIES[di]].atomic_number, ri, _charge(ri, rq), tri, d) for di, dq, ri, rq, tri, d in raw]
        entries = _dedupe(entries, lambda e: e[:4] + (self._tr(e[4])[0],), lambda e: e[:4] + (self._tr(e[4])[1],))
        if mode == "add":
            entries = entries[:1]
            di, dq, ri, rq, tri, d = entries[0]
            rate = {k: _conv(d[k], d["as"]) for k in ("ne", "te", "td", "rate")}
            with self.ctx.cut("add_pec_thermal_cx_rate"):
                R.add_pec_thermal_cx_rate(SP[SPECIES[di]], dq, SP[SPECIES[ri]], rq, self._tr(tri)[0], rate, self.path)
        else:
            batch = {}
            for di, dq, ri, rq, tri, d in entries:
                batch.setdefault(SP[SPECIES[di]], {}).setdefault(dq, {}).setdefault(SP[SPECIES[ri]], {}).setdefault(rq, {})[self._tr(tri)[0]] = \
                    {k: _conv(d[k], d["as"]) for k in ("ne", "te", "td", "rate")}
            self._call("update_pec_thermal_cx_rates", R.update_pec_thermal_cx_rates, batch)
        for di, dq, ri, rq, tri, d in entries:
            low = self._tr(tri)[1]
            ds, rs = SP[SPECIES[di]].symbol.lower(), SP[SPECIES[ri]].symbol.lower()
            self._store(("pec_thermal_cx", ds, dq, rs, rq, low), "pec/thermal_cx/%s/%d/%s/%d.json" % (ds, dq, rs, rq),
                        {k: _expect(d[k], d["as"]) for k in ("ne", "te", "td", "rate")})
        self.ctx.label("w:pec_thermal_cx:" + mode)

    OPS["pec_tcx"] = lambda: st.tuples(st.sampled_from(["add", "update"]),
                                       st.lists(st.tuples(_sp, st.integers(0, 2), _sp, st.integers(0, 18), _tr, pec3_data()), min_size=1, max_size=2))

    # ---- wavelength
    def do_wavelength(self, a):
        mode, raw = a[0], a[1]
        sform = a[2] if len(a) > 2 else "float"
        entries = [(spi, _charge(spi, c), tri, w) for spi, c, tri, w in raw]
        entries = _dedupe(entries, lambda e: (e[0], e[1], self._tr(e[2])[0]), lambda e: (e[0], e[1], self._tr(e[2])[1]))
        if mode == "add":
            entries = entries[:1]
            spi, q, tri, w = entries[0]
            self._call("add_wavelength", R.add_wavelength, SP[SPECIES[spi]], q, self._tr(tri)[0], _scalar(w, sform)[0])
        else:
            batch = {}
            for spi, q, tri, w in entries:
                batch.setdefault(SP[SPECIES[spi]], {}).setdefault(q, {})[self._tr(tri)[0]] = _scalar(w, sform)[0]
            self._call("update_wavelengths", R.update_wavelengths, batch)
        for spi, q, tri, w in entries:
            low = self._tr(tri)[1]
            sym = SP[SPECIES[spi]].symbol.lower()
            self._store(("wavelength", sym, q, low), "wavelength/%s/%d.json" % (sym, q), {"wavelength": np.float64(_scalar(w, sform)[1])})
        self.ctx.label("w:wavelength:" + mode)
        if sform != "float":
            self.ctx.label("scalar-form:" + sform)

    OPS["wavelength"] = lambda: st.tuples(st.sampled_from(["add", "update"]),
                                          st.lists(st.tuples(_sp, st.integers(0, 18), _tr, _fl), min_size=1, max_size=3),
                                          st.sampled_from(_SFORMS))

    # ---- beam CX: key (family, donor, receiver, rq, transition, metastable)
    _BCX = ("eb", "ti", "ni", "z", "b", "qeb", "qti", "qni", "qz", "qb")

    def do_beam_cx(self, a):
        mode, raw = a
        entries = [(di, ri, _charge(ri, rq), tri, ms, d) for di, ri, rq, tri, ms, d in raw]
        entries = _dedupe(entries, lambda e: (e[0], e[1], e[2], self._tr(e[3])[0], e[4]), lambda e: (e[0], e[1], e[2], self._tr(e[3])[1], e[4]))

        def mk(d):
            r = {k: _conv(d[k], d["as"]) for k in self._BCX}
            r["qref"] = _scalar(d["qref"], d.get("sas", "float"))[0]
            return r
        if mode == "add":
            entries = entries[:1]
            di, ri, rq, tri, ms, d = entries[0]
            with self.ctx.cut("add_beam_cx_rate"):
                R.add_beam_cx_rate(SP[SPECIES[di]], ms, SP[SPECIES[ri]], rq, self._tr(tri)[0], mk(d), self.path)
        else:
            batch = {}
            for di, ri, rq, tri, ms, d in entries:
                batch.setdefault(SP[SPECIES[di]], {}).setdefault(SP[SPECIES[ri]], {}).setdefault(rq, {}).setdefault(self._tr(tri)[0], {})[ms] = mk(d)
            self._call("update_beam_cx_rates", R.update_beam_cx_rates, batch)
        for di, ri, rq, tri, ms, d in entries:
            low = self._tr(tri)[1]
            ds, rs = SP[SPECIES[di]].symbol.lower(), SP[SPECIES[ri]].symbol.lower()
            val = {k: _expect(d[k], d["as"]) for k in self._BCX}
            val["qref"] = np.float64(_scalar(d["qref"], d.get("sas", "float"))[1])
            if d.get("sas", "float") != "float":
                self.ctx.label("scalar-form:" + d["sas"])
            self._store(("beam_cx", ds, rs, rq, low, ms), "beam/cx/%s/%s/%d.json" % (ds, rs, rq), val)
        self.ctx.label("w:beam_cx:" + mode)

    OPS["beam_cx"] = lambda: st.tuples(st.sampled_from(["add", "update"]),
                                       st.lists(st.tuples(st.integers(0, 2), _sp, st.integers(0, 18), _tr, st.integers(1, 3), beamcx_data()), min_size=1, max_size=3))

    # ---- beam stopping / population / emission
    _BK = ("e", "n", "t", "sen", "st")
    _BS = ("eref", "nref", "tref", "sref")

    def _beam_rate(self, d):
        r = {k: _conv(d[k], d["as"]) for k in self._BK}
        for k in self._BS:
            r[k] = _scalar(d[k], d.get("sas", "float"))[0]
        return r

    def _beam_val(self, d):
        v = {k: _expect(d[k], d["as"]) for k in self._BK}
        for k in self._BS:
            v[k] = np.float64(_scalar(d[k], d.get("sas", "float"))[1])
        if d.get("sas", "float") != "float":
            self.ctx.label("scalar-form:" + d["sas"])
        return v

    def do_beam_stopping(self, a):
        mode, raw = a
        entries = [(bi, ti, _charge(ti, tq), d) for bi, ti, tq, d in raw]
        if mode == "add":
            entries = entries[:1]
            bi, ti, tq, d = entries[0]
            self._call("add_beam_stopping_rate", R.add_beam_stopping_rate, SP[SPECIES[bi]], SP[SPECIES[ti]], tq, self._beam_rate(d))
        else:
            batch = {}
            for bi, ti, tq, d in entries:
                batch.setdefault(SP[SPECIES[bi]], {}).setdefault(SP[SPECIES[ti]], {})[tq] = self._beam_rate(d)
            self._call("update_beam_stopping_rates", R.update_beam_stopping_rates, batch)
        for bi, ti, tq, d in _dedupe(entries, lambda e: e[:3], lambda e: e[:3]):
            bs, ts = SP[SPECIES[bi]].symbol.lower(), SP[SPECIES[ti]].symbol.lower()
            self._store(("beam_stopping", bs, ts, tq), "beam/stopping/%s/%s/%d.json" % (bs, ts, tq), self._beam_val(d))
        self.ctx.label("w:beam_stopping:" + mode)

    OPS["beam_stopping"] = lambda: st.tuples(st.sampled_from(["add", "update"]),
                                             st.lists(st.tuples(st.integers(0, 2), _sp, st.integers(0, 18), beam_data()), min_size=1, max_size=3))

    def do_beam_population(self, a):
        mode, raw = a
        entries = [(bi, ms, ti, _charge(ti, tq), d) for bi, ms, ti, tq, d in raw]
        if mode == "add":
            entries = entries[:1]
            bi, ms, ti, tq, d = entries[0]
            with self.ctx.cut("add_beam_population_rate"):
                R.add_beam_population_rate(SP[SPECIES[bi]], ms, SP[SPECIES[ti]], tq, self._beam_rate(d), self.path)
        else:
            batch = {}
            for bi, ms, ti, tq, d in entries:
                batch.setdefault(SP[SPECIES[bi]], {}).setdefault(ms, {}).setdefault(SP[SPECIES[ti]], {})[tq] = self._beam_rate(d)
            self._call("update_beam_population_rates", R.update_beam_population_rates, batch)
        for bi, ms, ti, tq, d in _dedupe(entries, lambda e: e[:4], lambda e: e[:4]):
            bs, ts = SP[SPECIES[bi]].symbol.lower(), SP[SPECIES[ti]].symbol.lower()
            self._store(("beam_population", bs, ms, ts, tq), "beam/population/%s/%d/%s/%d.json" % (bs, ms, ts, tq), self._beam_val(d))
        self.ctx.label("w:beam_population:" + mode)

    OPS["beam_population"] = lambda: st.tuples(st.sampled_from(["add", "update"]),
                                               st.lists(st.tuples(st.integers(0, 2), st.integers(1, 3), _sp, st.integers(0, 18), beam_data()), min_size=1, max_size=3))

    def do_beam_emission(self, a):
        mode, raw = a
        entries = [(bi, ti, _charge(ti, tq), tri, d) for bi, ti, tq, tri, d in raw]
        entries = _dedupe(entries, lambda e: (e[0], e[1], e[2], self._tr(e[3])[0]), lambda e: (e[0], e[1], e[2], self._tr(e[3])[1]))
        if mode == "add":
            entries = entries[:1]
            bi, ti, tq, tri, d = entries[0]
            with self.ctx.cut("add_beam_emission_rate"):
                R.add_beam_emission_rate(SP[SPECIES[bi]], SP[SPECIES[ti]], tq, self._tr(tri)[0], self._beam_rate(d), self.path)
        else:
            batch = {}
            for bi, ti, tq, tri, d in entries:
                batch.setdefault(SP[SPECIES[bi]], {}).setdefault(SP[SPECIES[ti]], {}).setdefault(tq, {})[self._tr(tri)[0]] = self._beam_rate(d)
            self._call("update_beam_emission_rates", R.update_beam_emission_rates, batch)
        for bi, ti, tq, tri, d in entries:
            low = self._tr(tri)[1]
            bs, ts = SP[SPECIES[bi]].symbol.lower(), SP[SPECIES[ti]].symbol.lower()
            self._store(("beam_emission", bs, ts, tq, low), "beam/emission/%s/%s/%d.json" % (bs, ts, tq), self._beam_val(d))
        self.ctx.label("w:beam_emission:" + mode)

    OPS["beam_emission"] = lambda: st.tuples(st.sampled_from(["add", "update"]),
                                             st.lists(st.tuples(st.integers(0, 2), _sp, st.integers(0, 18), _tr, beam_data()), min_size=1, max_size=3))

    # ---- ADF11 install front-ends (file produced by the independent writer of vf/oracles/adf_writers.py)
    def do_install11(self, arg):
        case, via = arg
        cls = case["cls"]
        fam, off = INSTALL11[cls]
        el = ADF.EL[case["el"]]
        d, text = ADF.build_adf11(case)
        rel = ADF.ADF11[cls][3] % el.symbol.lower()
        adas = tempfile.mkdtemp(prefix="vf_c06_adas_")
        try:
            path = os.path.join(adas, rel)
            os.makedirs(os.path.dirname(path))
            with open(path, "w") as f:
                f.write(text)
            with self.ctx.cut("install_adf11" + cls):
                _install_adf11(cls, el, rel, adas, self.path, via)
        finally:
            shutil.rmtree(adas, ignore_errors=True)
        want_ne = ADF._pow10(ADF._vals(d["dens"])) * 1e6
        want_te = ADF._pow10(ADF._vals(d["temp"]))
        sym = el.symbol.lower()
        for b in d["blocks"]:
            q = b["z1"] + off
            if fam == "thermal_cx":
                key, relf = ("thermal_cx", "h", 0, sym, q), "thermal_cx/h/0/%s.json" % sym
            else:
                key, relf = (fam, sym, q), F_ADF11[fam][3] % sym
            # what the install wrote must be the file's numbers (C08's oracle, 1e-12) ...
            want = {"ne": want_ne, "te": want_te, "rate": ADF._pow10(ADF._vals(b["table"]).T) * 1e-6}
            with self.ctx.cut("read-after-install"):
                got = self._read(key)
            for k, w in want.items():
                self.ctx.close(got[k], w, "install:" + cls + ":" + k, rtol=1e-12, info="(key %r)" % (key,))
            # ... and from now on it is ordinary repository content that must persist bit for bit
            self._store(key, relf, {k: np.array(got[k], dtype=np.float64) for k in want})
        self.ctx.label("w:install11:" + cls, "install11:via-" + via)

    OPS["install11"] = lambda: st.tuples(ADF.adf11_cases().filter(lambda c: c["nd"] * c["nt"] * c["nblk"] <= 400),
                                         st.sampled_from(["direct", "direct", "files"]))

    # ---- ADF15 install front-end: excitation / recombination / thermal-CX PECs and wavelengths from one file
    def do_install15(self, case):
        el, q = ADF.EL[case["el"]], case["charge"]
        d, text, expected = ADF.build_adf15(case)
        rel = ADF._rel_adf15(case)
        adas = tempfile.mkdtemp(prefix="vf_c06_adas_")
        try:
            path = os.path.join(adas, rel)
            os.makedirs(os.path.dirname(path))
            with open(path, "w") as f:
                f.write(text)
            with self.ctx.cut("install_adf15"):
                ADF._quiet(ADF.I.install_adf15, el, q, rel, download=False, repository_path=self.path, adas_path=adas,
                           header_format=ADF._hf(case))
        finally:
            shutil.rmtree(adas, ignore_errors=True)
        sym = el.symbol.lower()
        for c, t, b in expected:
            low = (str(t[0]).lower(), str(t[1]).lower())
            ne, te, tab = ADF._vals(b["dens"]) * 1e6, ADF._vals(b["temp"]), ADF._vals(b["table"]) * 1e-6
            if c == "thermalcx":
                key, relf = ("pec_thermal_cx", "h", 0, sym, q + 1, low), "pec/thermal_cx/h/0/%s/%d.json" % (sym, q + 1)
            else:
                key, relf = ("pec_" + c, sym, q, low), "pec/%s/%s/%d.json" % (c, sym, q)
            with self.ctx.cut("read-after-install"):
                got = self._read(key)
            self.ctx.close(got["ne"], ne, "install:adf15:ne", rtol=1e-12, info="(key %r)" % (key,))
            self.ctx.close(got["te"], te, "install:adf15:te", rtol=1e-12, info="(key %r)" % (key,))
            g = np.asarray(got["rate"], dtype=np.float64)
            if c == "thermalcx":
                self.ctx.check(g.ndim == 3 and g.shape[:2] == tab.shape, "install:adf15:rate", lambda: "thermal CX PEC shape %r for table %r" % (g.shape, tab.shape))
                for k in range(g.shape[2]):
                    self.ctx.close(g[:, :, k], tab, "install:adf15:rate", rtol=1e-12, info="(key %r, donor temperature %d)" % (key, k))
            else:
                self.ctx.close(g, tab, "install:adf15:rate", rtol=1e-12, info="(key %r)" % (key,))
            self._store(key, relf, {k: np.array(got[k], dtype=np.float64) for k in got if k in ("ne", "te", "td", "rate")})
            wkey = ("wavelength", sym, q, low)
            with self.ctx.cut("read-after-install"):
                w = self._read(wkey)["wavelength"]
            self.ctx.close(w, (b["wl"] / 10.0) / 10.0, "install:adf15:wavelength", rtol=1e-12, info="(key %r)" % (wkey,))
            self._store(wkey, "wavelength/%s/%d.json" % (sym, q), {"wavelength": np.float64(w)})
        self.ctx.label("install15", "w:install15:" + "+".join(sorted({c for c, _, _ in expected})))

    OPS["install15"] = lambda: ADF.adf15_cases().filter(lambda c: sum(b["nd"] * b["nt"] for b in c["blocks"]) <= 600)

    # ---- rejected updates: must raise and change nothing
    def pre_reject(self):
        return self.n_writes > 0

    def do_reject(self, a):
        fam, why, spi, c, tri, seed = a
        sp = SP[SPECIES[spi]]
        q = _charge(spi, c)
        tr = self._tr(tri)[0]
        good2 = {"ne": [1.0, 2.0], "te": [1.0, 2.0, 3.0]}
        bad = why
        if bad == "charge":
            q = sp.atomic_number + 1 + (seed % 3)
        # invalid *content* (shape / dimensions / non-numeric value) is aimed, two times out of three, at a species and charge whose
        # file already holds data of this family: the refused update must not have touched that file
        stored = sorted(k for k in self.model if k[0] == fam) if (fam in F_ADF11 or fam in F_PEC) else []
        if bad in ("shape", "ndim") and stored and seed % 3:
            k = stored[seed % len(stored)]
            sp, q = ALL_BY_SYMBOL[k[1]], k[2]
            self.ctx.label("reject:content-into-existing-file")
        species = "H" if bad == "species" else sp
        shape_bad = bad == "shape"
        ndim_bad = bad == "ndim"
        tab = [[1.0, 2.0, 3.0], [4.0, 5.0, 6.0]]
        if shape_bad:
            tab = [[1.0, 2.0], [3.0, 4.0], [5.0, 6.0]] if seed % 2 else [[1.0, 2.0, 3.0]]
        ne = [[1.0, 2.0]] if ndim_bad else good2["ne"]
        exc = (ValueError, TypeError)
        p = self.path
        if fam in F_ADF11:
            addn, updn = F_ADF11[fam][0], F_ADF11[fam][1]
            rate = {"ne": ne, "te": good2["te"], "rates": tab}
            if seed % 2:
                self.ctx.raises(exc, "reject:" + updn, getattr(R, updn), {species: {q: rate}}, p)
            else:
                self.ctx.raises(exc, "reject:" + addn, getattr(R, addn), species, q, rate, p)
        elif fam in F_PEC:
            rate = {"ne": ne, "te": good2["te"], "rate": tab}
            self.ctx.raises(exc, "reject:" + F_PEC[fam][0], getattr(R, F_PEC[fam][0]), species, q, tr, rate, p)
        elif fam == "pec_unknown_class":
            rate = {"ne": good2["ne"], "te": good2["te"], "rate": [[1.0, 2.0, 3.0], [4.0, 5.0, 6.0]]}
            self.ctx.raises(exc, "reject:update_pec_rates", R.update_pec_rates, {"thermal": {sp: {_charge(spi, c): {tr: rate}}}}, p)
        elif fam == "wavelength":
            stored = sorted(k for k in self.model if k[0] == "wavelength")
            if bad in ("shape", "ndim") and stored:
                # valid species and charge whose file already holds wavelengths; the *content* is invalid: a wavelength that is
                # not a number, or a transition that is not a pair (both certain to be refused: float('abc'), unpacking)
                k = stored[seed % len(stored)]
                species, q = ALL_BY_SYMBOL[k[1]], k[2]
                bad = "value" if bad == "shape" else "transition"
                wl_bad, tr_bad = ("abc", tr) if bad == "value" else (500.0, (tr[0], tr[1], 1))
                if seed % 2:
                    # batched: a valid entry of the same file first, then the invalid one
                    self.ctx.raises((Exception,), "reject:update_wavelengths", R.update_wavelengths,
                                    {species: {q: {tr: 432.1 + seed, tr_bad: wl_bad} if bad == "transition" else {tr_bad: wl_bad}}}, p)
                else:
                    self.ctx.raises((Exception,), "reject:add_wavelength", R.add_wavelength, species, q, tr_bad, wl_bad, p)
                self.ctx.label("reject:content-into-existing-file")
            else:
                if bad in ("shape", "ndim"):
                    q = sp.atomic_number + 1
                self.ctx.raises(exc, "reject:add_wavelength", R.add_wavelength, species, q, tr, 500.0, p)
        elif fam in ("beam_stopping", "beam_emission", "beam_population"):
            sen = [[1.0, 2.0], [3.0, 4.0]] if not shape_bad else [[1.0, 2.0, 3.0]]
            rate = {"e": [1.0, 2.0] if not ndim_bad else [[1.0, 2.0]], "n": [1.0, 2.0], "t": [1.0], "sen": sen, "st": [1.0],
                    "eref": 1.0, "nref": 1.0, "tref": 1.0, "sref": 1.0}
            if fam == "beam_stopping":
                self.ctx.raises(exc, "reject:add_beam_stopping_rate", R.add_beam_stopping_rate, species, sp, q, rate, p)
            elif fam == "beam_population":
                self.ctx.raises(exc, "reject:add_beam_population_rate", R.add_beam_population_rate, species, 1, sp, q, rate, p)
            else:
                self.ctx.raises(exc, "reject:add_beam_emission_rate", R.add_beam_emission_rate, species, sp, q, tr, rate, p)
        elif fam == "beam_cx":
            rate = {"qref": 1.0}
            for x, qq in (("eb", "qeb"), ("ti", "qti"), ("ni", "qni"), ("z", "qz"), ("b", "qb")):
                rate[x], rate[qq] = [1.0, 2.0], [1.0, 2.0]
            if shape_bad:
                rate["qti"] = [1.0, 2.0, 3.0]
            if ndim_bad:
                rate["eb"] = [[1.0, 2.0]]
                rate["qeb"] = [[1.0, 2.0]]
            self.ctx.raises(exc, "reject:add_beam_cx_rate", R.add_beam_cx_rate, species, 1, sp, q, tr, rate, p)
        self.n_rej += 1
        self.ctx.label("reject:" + fam + ":" + bad)
        # previously stored keys (same family first) must still be readable, unchanged
        keys = sorted(self.model, key=lambda k: (k[0] != fam, repr(k)))
        for k in keys[:3]:
            self._verify(k)

    OPS["reject"] = lambda: st.tuples(
        st.sampled_from(sorted(F_ADF11) + sorted(F_PEC) + ["pec_unknown_class", "wavelength", "beam_stopping", "beam_emission", "beam_population", "beam_cx"]),
        st.sampled_from(["charge", "species", "shape", "ndim"]), _sp, st.integers(0, 18), _tr, st.integers(0, 5))

    # ---- reading
    def _read(self, key):
        fam = key[0]
        p = self.path
        sp = ALL_BY_SYMBOL
        if fam in F_ADF11:
            return getattr(R, F_ADF11[fam][2])(sp[key[1]], key[2], p)
        if fam == "thermal_cx":
            return R.get_thermal_cx_rate(sp[key[1]], key[2], sp[key[3]], key[4], p)
        if fam in F_PEC:
            return getattr(R, F_PEC[fam][2])(sp[key[1]], key[2], key[3], p)
        if fam == "pec_thermal_cx":
            return R.get_pec_thermal_cx_rate(sp[key[1]], key[2], sp[key[3]], key[4], key[5], p)
        if fam == "wavelength":
            return {"wavelength": R.get_wavelength(sp[key[1]], key[2], key[3], p)}
        if fam == "beam_cx":
            lst = R.get_beam_cx_rates(sp[key[1]], sp[key[2]], key[3], key[4], p)
            got = [r for m, r in lst if m == key[5]]
            if len(lst) == 0:
                # a transition that was never written must raise RuntimeError, not come back as "no metastables"
                self.ctx.fail("absent:beam_cx" if key not in self.model else "read:beam_cx",
                              "get_beam_cx_rates returned an empty list for %r instead of %s" % (key, "raising RuntimeError" if key not in self.model else "the stored rates"))
            if len(got) == 0:
                raise RuntimeError("metastable %r not among those stored for the transition" % (key[5],))
            if len(got) != 1:
                self.ctx.fail("read:beam_cx", "metastable %r appears %d times for %r" % (key[5], len(got), key))
            return got[0]
        if fam == "beam_stopping":
            return R.get_beam_stopping_rate(sp[key[1]], sp[key[2]], key[3], p)
        if fam == "beam_population":
            return R.get_beam_population_rate(sp[key[1]], key[2], sp[key[3]], key[4], p)
        if fam == "beam_emission":
            return R.get_beam_emission_rate(sp[key[1]], sp[key[2]], key[3], key[4], p)
        raise AssertionError(fam)

    def _verify(self, key):
        want = self.model[key]
        try:
            got = self._read(key)
        except RuntimeError as e:
            self.ctx.fail("read:" + key[0], "key %r was written but reading it raises RuntimeError: %s" % (key, e))
        except Violation:
            raise
        except Exception as e:  # noqa
            self.ctx.fail("read:" + key[0], "reading %r raised %s: %s" % (key, type(e).__name__, e))
        for k, w in want.items():
            if k not in got:
                self.ctx.fail("read:" + key[0], "entry %r missing when reading %r (has %r)" % (k, key, sorted(got)))
            g = got[k]
            gw = np.asarray(g, dtype=np.float64)
            if gw.shape != np.asarray(w).shape or not np.array_equal(_bits(gw), _bits(w)):
                self.ctx.fail("read:" + key[0], "key %r entry %r: read back %r, last written %r" % (key, k, _brief(g), _brief(w)))
        # what the caller does with a result is his own business: it is overwritten and emptied here (unit conversion in place, keys
        # popped), and the next read of the key - with or without a write in between - still has to come from what was written
        if isinstance(got, dict):
            for k in list(got):
                g = got[k]
                if isinstance(g, np.ndarray) and g.flags.writeable and g.dtype.kind == "f":
                    g *= -3.0
                    g += 7.0
            for k in list(got)[::2]:
                del got[k]

    def _absent(self, key):
        try:
            got = self._read(key)
        except RuntimeError:
            return
        except Violation:
            raise
        except Exception as e:  # noqa
            self.ctx.fail("absent:" + key[0], "reading never-written key %r raised %s instead of RuntimeError: %s" % (key, type(e).__name__, e))
        self.ctx.fail("absent:" + key[0], "never-written key %r is readable: %r" % (key, _brief(got)))

    def _sibling_candidates(self, key):
        """keys that differ from `key` in exactly one component, drawn from small pools."""
        out = []
        for i in range(1, len(key)):
            c = key[i]
            if isinstance(c, int) and not isinstance(c, bool):
                alts = [c + 1, c - 1] if c > 0 else [c + 1]
            elif isinstance(c, tuple):
                alts = [self._tr(j)[1] for j in range(len(TRANSITIONS))]
            else:
                alts = [s.symbol.lower() for s in SP.values()]
            for a in alts:
                if a != c:
                    k2 = key[:i] + (a,) + key[i + 1:]
                    if self._valid_key(k2):
                        out.append(k2)
        return out

    def _valid_key(self, k):
        return True

    def do_read(self, a):
        idx, sib = a
        keys = sorted(self.model, key=repr)
        if not keys:
            return
        key = keys[idx % len(keys)]
        self._verify(key)
        cands = self._sibling_candidates(key)
        k2 = cands[sib % len(cands)]
        if k2 in self.model:
            self._verify(k2)
        else:
            self._absent(k2)
        self.ctx.label("read")

    OPS["read"] = lambda: st.tuples(st.integers(0, 1000), st.integers(0, 1000))

    # ---- invariants
    def invariant(self):
        if os.path.exists(os.path.join(_SCRATCH_HOME, ".cherab")):
            shutil.rmtree(os.path.join(_SCRATCH_HOME, ".cherab"), ignore_errors=True)
            self.ctx.fail("stray", "a write ignored repository_path: files appeared under ~/.cherab")
        for key in self.touched:
            self._verify(key)
            # one previously stored sibling in the same file must still be intact
            for rel, ks in self.files.items():
                if key in ks:
                    others = sorted((k for k in ks if k != key), key=repr)
                    if others:
                        self._verify(others[len(self.touched) % len(others)])
        self.touched = []

    def finish(self):
        for key in sorted(self.model, key=repr):
            self._verify(key)
        # never-written neighbours
        n = 0
        for key in sorted(self.model, key=repr):
            for k2 in self._sibling_candidates(key)[:6]:
                if k2 not in self.model:
                    self._absent(k2)
                    n += 1
        # file set
        found = set()
        for root, dirs, files in os.walk(self.path):
            for f in files:
                found.add(os.path.relpath(os.path.join(root, f), self.path))
        allowed = (os.path.abspath(self.path) + os.sep, "/dev/", os.path.dirname(os.path.abspath(os.environ.get("VERIF_JOURNAL", "/nonexistent/x"))) + os.sep,
                   os.path.abspath(_SCRATCH_HOME) + os.sep, tempfile.gettempdir() + os.sep + "vf_c06_adas_")
        for w in _WATCH["writes"]:
            aw = os.path.abspath(w)
            if "/.hypothesis/" in aw:        # Hypothesis's own constants cache
                continue
            if not aw.startswith(allowed):
                self.ctx.fail("files", "file %r was opened for writing outside the repository path %r" % (w, self.path))
        _WATCH["writes"] = []
        for root, dirs, files in os.walk(self.top):
            for f in files:
                full = os.path.join(root, f)
                if not os.path.abspath(full).startswith(os.path.abspath(self.path) + os.sep):
                    self.ctx.fail("files", "file %r was created outside the repository path %r" % (full, self.path))
        want = set(self.files)
        if found != want:
            self.ctx.fail("files", "files in repository %r differ from those implied by the writes: unexpected %r, missing %r"
                          % (self.path, sorted(found - want)[:5], sorted(want - found)[:5]))
        if self.n_over:
            self.ctx.label("overwrite")
        if self.n_sib:
            self.ctx.label("same-file-siblings")
        if self.n_rej:
            self.ctx.label("rejected")
        self.ctx.label("absent-checked" if n else "no-absent")
        self.ctx.nt(self.n_over > 0 or self.n_sib > 0 or self.n_rej > 0)


_DIRNAMES = ["repo", "repo", "my repo (v2)", "{{project}}_atomic_data", "{0}", "{}", "data{", "%s_%d", "100%", "r\u00e9pertoire-\u00fc", "a.b.json",
             "rate$HOME", "~user", "trailing.", " lead", "UPPER", "wave'length", "x,y;z", "[1]", "#hash", "&and", "=eq", "+plus", "@at"]


@st.composite
def repo_params(draw):
    n = draw(st.sampled_from([1, 1, 2]))
    return {"dir": [draw(st.sampled_from(_DIRNAMES)) for _ in range(n)], "premade": draw(st.sampled_from([True, True, False]))}


def _brief(x):
    if isinstance(x, dict):
        return {k: _brief(v) for k, v in list(x.items())[:4]}
    a = np.asarray(x)
    s = np.array2string(a.ravel()[:6], precision=17)
    return "%s%s" % (s, "" if a.size <= 6 else "...(%d)" % a.size)


SUBCHECKS = {
    "machine": Machine(Repo, quick=480, thorough=6000, steps=(25, 30), params=lambda: repo_params()),
}
