"""C04 - beam density: particle conservation, monotone on-axis decay, z-range / clamp zeros, envelope-following
direction field."""
import math

import numpy as np
from hypothesis import strategies as st
from scipy import constants as K
from scipy.integrate import quad

from raysect.core import Vector3D, translate, rotate_x, rotate_y, rotate_z
from raysect.optical import World
from raysect.core import Node

from cherab.core import Plasma, Species, Maxwellian, Beam
from cherab.core.atomic import AtomicData, BeamStoppingRate
from cherab.core.atomic import elements as EL
from cherab.core.model import SingleRayAttenuator

from ..core import Given

ID = "C04"
RULE = ("Case = beam (energy, power, element, sigma, divergence_x/y incl. 0 and unequal, length, placement = translation + "
        "three rotations, optionally below an intermediate node with its own transform), attenuator (step, clamp on/off, clamp_sigma), plasma placement, 1-3 ion species (+ optional neutral "
        "with a null rate at a drawn position of the composition list, list order as drawn or reversed) with uniform / Gaussian-blob / sinusoidally modulated density, temperature and flow profiles, and "
        "analytic stopping coefficients S_i(E,n,T) (incl. identically zero). Oracle: cross-section integral of Beam.density by "
        "48x48 Gauss-Legendre (polar Gauss-Legendre inside the clamp ellipse) against P/(e E m)/v * exp(-tau(z)) with tau from "
        "scipy.quad over my own transforms and the documented composite stopping formula; monotone on-axis density; zeros "
        "outside [0, length] and outside the clamp; unit direction field whose RK4 streamlines keep x/sigma_x, y/sigma_y. "
        "Non-trivial = (divergence > 0 and stopping > 0 and a non-uniform profile) or clamping on; distinct by case hash.")
ASSUMPTIONS = ["the attenuator's documented scheme: trapezoid rule on linspace(0, L, max(1+ceil(L/step),4)) and linear "
               "interpolation of the on-axis density between nodes",
               "standard right-handed rotation matrices for raysect's rotate_x/y/z, translate"]
TOLERANCES = {
    "flux vs exp(-tau)": "relative: 3 * [ z h^2 max|S''| / (12 v)  +  h^2/8 * max((S/v)^2 + |S'|/v) ] + 1e-6, with h the node "
                         "spacing and the derivative maxima measured on a 2001-point sample of my own S(z); uniform plasma: 1e-6",
    "streamline invariants": "1e-6 relative (RK4, 200 steps)",
    "unit vector": "1e-12",
}
REQUIRED_LABELS = ["beam:flux:clamp", "beam:flux:diverging", "beam:flux:nonuniform", "beam:flux:no-stopping", "beam:flux:nested-nodes",
                   "beam:flux:4-node-minimum", "beam:flux:neutral-before-ions", "beam:flux:explicit-calculate", "beam:flux:two-beams", "beam:flux:zero-gap-between-lobes"]

AMU, E = K.atomic_mass, K.e
BEAM_ELEMENTS = ["hydrogen", "deuterium", "tritium", "helium"]
IONS = [("hydrogen", 1), ("deuterium", 1), ("tritium", 1), ("helium", 2), ("helium", 1), ("carbon", 6), ("carbon", 5), ("neon", 10)]


# ------------------------------------------------------------------------------------------------ profiles
def scalar_profile(p):
    k = p["kind"]
    if k == "uniform":
        v = p["v"]
        return lambda x, y, z: v
    if k == "gauss":
        v, c, w, fl = p["v"], p["c"], p["w"], p["floor"]
        return lambda x, y, z: v * (fl + (1 - fl) * math.exp(-((x - c[0]) ** 2 + (y - c[1]) ** 2 + (z - c[2]) ** 2) / (2 * w * w)))
    if k == "sin":
        v, kk, ph, a = p["v"], p["k"], p["ph"], p["a"]
        return lambda x, y, z: v * (1 + a * math.sin(kk[0] * x + kk[1] * y + kk[2] * z + ph))
    raise ValueError(k)


def _profile(draw, lo, hi, log=True):
    v = draw(st.floats(math.log10(lo), math.log10(hi))) if log else draw(st.floats(lo, hi))
    v = 10 ** v if log else v
    kind = draw(st.sampled_from(["uniform", "gauss", "sin"]))
    if kind == "uniform":
        return {"kind": "uniform", "v": v}
    if kind == "gauss":
        return {"kind": "gauss", "v": v, "c": [draw(st.floats(-1.5, 1.5)) for _ in range(3)], "w": draw(st.floats(0.3, 2.0)),
                "floor": draw(st.sampled_from([0.05, 0.1, 0.3]))}   # analytic power-law rates need positive n, T
    return {"kind": "sin", "v": v, "k": [draw(st.floats(-4.0, 4.0)) for _ in range(3)], "ph": draw(st.floats(0, 6.28)),
            "a": draw(st.floats(0.05, 0.6))}


@st.composite
def strategy(draw):
    nsp = draw(st.integers(1, 3))
    idx = draw(st.lists(st.integers(0, len(IONS) - 1), min_size=nsp, max_size=nsp, unique=True))
    species = []
    for i in idx:
        species.append({"ion": i, "n": _profile(draw, 2e18, 1e20), "t": _profile(draw, 10.0, 5e3),
                        "v": [draw(st.sampled_from([0.0, 0.0, 1e5, -3e5, 8e5])) for _ in range(3)],
                        "vprof": _profile(draw, 0.5, 1.5, log=False) if draw(st.booleans()) else {"kind": "uniform", "v": 1.0},
                        "s0": draw(st.sampled_from([0.0, 3e-15, 1e-14, 3e-14, 1e-13])),
                        "se": draw(st.floats(-0.6, 0.6)), "sn": draw(st.floats(-0.3, 0.3)), "st": draw(st.floats(-0.3, 0.3))})
    stopping_all_zero = draw(st.integers(0, 9)) == 0
    if stopping_all_zero:
        for s in species:
            s["s0"] = 0.0
    return {
        "energy": draw(st.floats(1e3, 1e5)), "power": draw(st.floats(1e3, 5e6)), "bel": draw(st.sampled_from(BEAM_ELEMENTS)),
        "sigma": draw(st.floats(0.01, 0.2)), "divx": draw(st.sampled_from([0.0, 0.0, 0.3, 1.0, 2.5, 5.0])),
        "divy": draw(st.sampled_from([0.0, 0.5, 0.5, 1.0, 3.0, 5.0])), "length": draw(st.floats(0.5, 4.0)),
        "step": draw(st.sampled_from([0.002, 0.005, 0.01, 0.02, 0.05, 0.05, 0.3, 1.5, 10.0])),   # the last ones: 4-node minimum
        "clamp": draw(st.booleans()), "clamp_sigma": draw(st.floats(0.5, 6.0)),
        "bt": [draw(st.floats(-1.0, 1.0)) for _ in range(3)], "br": [draw(st.floats(-180.0, 180.0)) for _ in range(3)],
        "pt": [draw(st.floats(-0.5, 0.5)) for _ in range(3)], "pr": [draw(st.sampled_from([0.0, 0.0, 30.0, -75.0, 90.0])) for _ in range(3)],
        "species": species, "neutral": draw(st.booleans()), "neutral_pos": draw(st.integers(0, 3)),
        "order": draw(st.sampled_from(["as-drawn", "reversed"])), "explicit_calc": draw(st.booleans()),
        # beam and/or plasma below an intermediate scene-graph node with its own transform (None = child of the world)
        "bnode": draw(st.one_of(st.none(), st.none(), st.tuples(st.lists(st.floats(-1.0, 1.0), min_size=3, max_size=3),
                                                                 st.lists(st.floats(-180.0, 180.0), min_size=3, max_size=3)))),
        "pnode": draw(st.one_of(st.none(), st.none(), st.tuples(st.lists(st.floats(-1.0, 1.0), min_size=3, max_size=3),
                                                                 st.lists(st.sampled_from([0.0, 45.0, -120.0]), min_size=3, max_size=3)))),
        "zs": [draw(st.floats(0.0, 1.0)) for _ in range(5)],
        # hollow plasma: every density is multiplied by max(0, sin(k.r + ph))^2 - regions of exactly zero density between lobes
        "hollow": draw(st.one_of(st.none(), st.none(), st.fixed_dictionaries({
            "k": st.lists(st.floats(-12.0, 12.0), min_size=3, max_size=3), "ph": st.floats(0, 6.28)}))),
        # a second beam in the same world, fed by the same plasma (interference / repeat relations)
        "beam2": draw(st.one_of(st.none(), st.fixed_dictionaries({
            "energy": st.floats(1e3, 1e5), "power": st.floats(1e3, 5e6), "bel": st.sampled_from(BEAM_ELEMENTS),
            "sigma": st.floats(0.01, 0.2), "divx": st.sampled_from([0.0, 0.7, 4.0]), "divy": st.sampled_from([0.0, 1.5, 2.0]),
            "length": st.floats(0.5, 4.0), "step": st.sampled_from([0.005, 0.02, 0.05, 0.3]),
            "clamp": st.booleans(), "clamp_sigma": st.floats(0.5, 6.0),
            "bt": st.lists(st.floats(-1.0, 1.0), min_size=3, max_size=3), "br": st.lists(st.floats(-180.0, 180.0), min_size=3, max_size=3),
            "same_attenuator_class_defaults": st.booleans(), "when": st.sampled_from(["before", "between", "between"])}))),
        "probe": [draw(st.floats(-2.5, 2.5)), draw(st.floats(-2.5, 2.5)), draw(st.floats(0.02, 0.6)), draw(st.floats(0.5, 1.0))],
    }


# ------------------------------------------------------------------------------------------------ own matrices
def _rx(a):
    c, s = math.cos(math.radians(a)), math.sin(math.radians(a))
    return np.array([[1, 0, 0, 0], [0, c, -s, 0], [0, s, c, 0], [0, 0, 0, 1.0]])


def _ry(a):
    c, s = math.cos(math.radians(a)), math.sin(math.radians(a))
    return np.array([[c, 0, s, 0], [0, 1, 0, 0], [-s, 0, c, 0], [0, 0, 0, 1.0]])


def _rz(a):
    c, s = math.cos(math.radians(a)), math.sin(math.radians(a))
    return np.array([[c, -s, 0, 0], [s, c, 0, 0], [0, 0, 1, 0], [0, 0, 0, 1.0]])


def _tr(t):
    m = np.eye(4)
    m[:3, 3] = t
    return m


def own_matrix(t, r):
    return _tr(t) @ _rz(r[2]) @ _ry(r[1]) @ _rx(r[0])


def ray_matrix(t, r):
    return translate(*t) * rotate_z(r[2]) * rotate_y(r[1]) * rotate_x(r[0])


# ------------------------------------------------------------------------------------------------ mocks
class PyStopping(BeamStoppingRate):
    def __init__(self, f):
        self.f = f

    def evaluate(self, energy, density, temperature):
        return self.f(energy, density, temperature)


def stop_fn(s):
    s0, a, b, c = s["s0"], s["se"], s["sn"], s["st"]
    if s0 == 0.0:
        return lambda e, n, t: 0.0
    # like the provider's rates (C07): zero for a non-positive argument (a hollow plasma has n = 0 somewhere)
    return lambda e, n, t: (s0 * (e / 5e4) ** a * (n / 1e19) ** b * (t / 100.0) ** c) if (e > 0 and n > 0 and t > 0) else 0.0


class MockData(AtomicData):
    def __init__(self, table):
        self.table = table

    def beam_stopping_rate(self, beam_ion, plasma_ion, charge):
        return PyStopping(self.table[(plasma_ion.name, charge)])


def build(case):
    world = World()
    pparent = Node(parent=world, transform=ray_matrix(*case["pnode"])) if case.get("pnode") else world
    bparent = Node(parent=world, transform=ray_matrix(*case["bnode"])) if case.get("bnode") else world
    plasma = Plasma(parent=pparent, transform=ray_matrix(case["pt"], case["pr"]))
    plasma.b_field = (lambda x, y, z: Vector3D(0, 0, 1))
    plasma.electron_distribution = Maxwellian(lambda x, y, z: 1e19, lambda x, y, z: 100.0,
                                              (lambda x, y, z: Vector3D(0, 0, 0)), K.m_e)
    comp, table, own = [], {}, []
    for s in case["species"]:
        name, q = IONS[s["ion"]]
        el = getattr(EL, name)
        nf, tf, vf = scalar_profile(s["n"]), scalar_profile(s["t"]), scalar_profile(s["vprof"])
        if case.get("hollow"):
            hk, hp = case["hollow"]["k"], case["hollow"]["ph"]
            nf = (lambda x, y, z, nf=nf: nf(x, y, z) * max(0.0, math.sin(hk[0] * x + hk[1] * y + hk[2] * z + hp)) ** 2)
        v0 = s["v"]
        velf = (lambda x, y, z, vf=vf, v0=v0: Vector3D(v0[0] * vf(x, y, z), v0[1] * vf(x, y, z), v0[2] * vf(x, y, z)))
        comp.append(Species(el, q, Maxwellian(nf, tf, velf, el.atomic_weight * AMU)))
        f = stop_fn(s)
        table[(el.name, q)] = f
        own.append((q, nf, tf, vf, v0, f))
    if case["neutral"]:
        el = EL.deuterium
        # the neutral sits at a drawn position of the composition list (first, in the middle, last): the documented sum runs
        # over all species whatever their order
        comp.insert(case.get("neutral_pos", len(comp)) % (len(comp) + 1),
                    Species(el, 0, Maxwellian(lambda x, y, z: 1e17, lambda x, y, z: 5.0,
                                              (lambda x, y, z: Vector3D(0, 0, 0)), el.atomic_weight * AMU)))
        table[(el.name, 0)] = lambda e, n, t: 0.0       # the provider's null rate for neutrals
    if case.get("order") == "reversed":
        comp.reverse()
    plasma.composition = comp
    data = MockData(table)
    beam = make_beam(case, bparent, plasma, data)
    if case.get("explicit_calc"):
        # the documented explicit trigger instead of the lazy evaluation on the first density() call
        beam.attenuator.calculate_attenuation()
    return world, plasma, beam, own


def make_beam(c, parent, plasma, data):
    beam = Beam(parent=parent, transform=ray_matrix(c["bt"], c["br"]))
    beam.plasma = plasma
    beam.atomic_data = data
    beam.energy = c["energy"]
    beam.power = c["power"]
    beam.element = getattr(EL, c["bel"])
    beam.sigma = c["sigma"]
    beam.divergence_x = c["divx"]
    beam.divergence_y = c["divy"]
    beam.length = c["length"]
    beam.attenuator = SingleRayAttenuator(step=c["step"], clamp_to_zero=c["clamp"], clamp_sigma=c["clamp_sigma"])
    return beam


def probe_points(c, us):
    """sample points of a beam (its own coordinates), from the unit-cube numbers `us`"""
    tx, ty = math.tan(math.radians(c["divx"])), math.tan(math.radians(c["divy"]))
    pts = []
    for i, u in enumerate(us):
        z = u * c["length"]
        sx, sy = math.sqrt(c["sigma"] ** 2 + (z * tx) ** 2), math.sqrt(c["sigma"] ** 2 + (z * ty) ** 2)
        pts.append(((0.3 * i - 0.5) * sx, (0.4 - 0.25 * i) * sy, z))
    return pts + [(0.0, 0.0, 0.0), (0.0, 0.0, c["length"])]


# ------------------------------------------------------------------------------------------------ oracle
_GL48 = np.polynomial.legendre.leggauss(48)
_GL64 = np.polynomial.legendre.leggauss(64)


def run(case, ctx):
    with ctx.cut("construct"):
        world, plasma, beam, own = build(case)
    L, sig = case["length"], case["sigma"]
    b2c = case.get("beam2")
    beam2 = first = None
    if b2c:
        # a second live beam (other parameters, own attenuator, same plasma and provider): whatever is asked of it, and whenever,
        # the first beam answers as if it were alone (the flux oracle below judges the first beam with beam 2 alive), and
        # beam 2 - first used after beam 1, or before it - meets its own source density and its own zeros
        pts1 = probe_points(case, case["zs"])
        pts2 = probe_points(b2c, case["zs"][::-1])
        with ctx.cut("construct"):
            beam2 = make_beam(b2c, world, plasma, beam.atomic_data)
        if b2c["when"] == "before":
            with ctx.cut("Beam.density"):
                second_first = [beam2.density(*p) for p in pts2]
        with ctx.cut("Beam.density"):
            first = [beam.density(*p) for p in pts1]
        ctx.label("flux:two-beams")
    tx, ty = math.tan(math.radians(case["divx"])), math.tan(math.radians(case["divy"]))
    m_el = getattr(EL, case["bel"]).atomic_weight
    v = math.sqrt(2 * case["energy"] * E / AMU)
    rate = case["power"] / (case["energy"] * m_el * E)          # particles per second  P / (E m)
    n_line0 = rate / v
    p2w = (own_matrix(*case["pnode"]) if case.get("pnode") else np.eye(4)) @ own_matrix(case["pt"], case["pr"])
    b2w = (own_matrix(*case["bnode"]) if case.get("bnode") else np.eye(4)) @ own_matrix(case["bt"], case["br"])
    b2p = np.linalg.inv(p2w) @ b2w
    axis_dir = (b2p @ np.array([0, 0, 1.0, 0]))[:3]
    vbeam = axis_dir / np.linalg.norm(axis_dir) * v

    def S(z):
        p = b2p @ np.array([0.0, 0.0, z, 1.0])
        x, y, zz = p[0], p[1], p[2]
        dens = [(q, nf(x, y, zz)) for q, nf, tf, vf, v0, f in own]
        z2n = sum(q * q * n for q, n in dens)
        tot = 0.0
        for (q, nf, tf, vf, v0, f), (_, n) in zip(own, dens):
            sc = vf(x, y, zz)
            vt = np.array(v0) * sc
            eint = 0.5 * AMU * float(np.dot(vbeam - vt, vbeam - vt)) / E
            tot += q * n * f(eint, z2n / q, tf(x, y, zz))
        return tot

    stopping = any(s["s0"] > 0 for s in case["species"])
    nonuniform = any(s[k]["kind"] != "uniform" for s in case["species"] for k in ("n", "t", "vprof"))
    diverging = tx > 0 or ty > 0
    # a-priori error bound of the documented scheme
    nb = max(1 + int(math.ceil(L / case["step"])), 4)
    h = L / (nb - 1)
    if stopping:
        zz = np.linspace(0, L, 2001)
        Sv = np.array([S(z) for z in zz])
        dz = zz[1] - zz[0]
        S1 = np.abs(np.gradient(Sv, dz)).max()
        S2 = np.abs(np.diff(Sv, 2)).max() / dz ** 2
        Smax = Sv.max()
    else:
        S1 = S2 = Smax = 0.0

    def tol_at(z):
        return 3 * (z * h * h * S2 / (12 * v) + h * h / 8 * ((Smax / v) ** 2 + S1 / v)) + 1e-6

    tau_L = quad(S, 0, L, limit=200)[0] / v if stopping else 0.0
    ctx.label("tau:%s" % ("0" if tau_L == 0 else "<0.1" if tau_L < 0.1 else "<1" if tau_L < 1 else ">=1"))
    if tol_at(L) > 0.05:
        ctx.label("coarse-step")          # bound too weak to be useful: only the structural checks below
    zs = sorted(set([0.0, L] + [u * L for u in case["zs"]]))
    c2 = case["clamp_sigma"] ** 2

    # ---- flux through the cross-section
    flux0 = None
    for z in zs:
        sx, sy = math.sqrt(sig ** 2 + (z * tx) ** 2), math.sqrt(sig ** 2 + (z * ty) ** 2)
        with ctx.cut("Beam.density"):
            if case["clamp"]:
                r, wr = _GL64
                rr = 0.5 * case["clamp_sigma"] * (r + 1)
                wrr = 0.5 * case["clamp_sigma"] * wr
                nphi = 64
                phis = (np.arange(nphi) + 0.5) * 2 * math.pi / nphi
                tot = 0.0
                for ri, wi in zip(rr, wrr):
                    s_ = 0.0
                    for ph in phis:
                        s_ += beam.density(sx * ri * math.cos(ph), sy * ri * math.sin(ph), z)
                    tot += wi * ri * s_ * (2 * math.pi / nphi)
                flux = tot * sx * sy
                want_shape = 1 - math.exp(-c2 / 2)
            else:
                x, w = _GL48
                xs, ws = 8 * sx * x, 8 * sx * w
                ys, wy = 8 * sy * x, 8 * sy * w
                flux = 0.0
                for xi, wi in zip(xs, ws):
                    row = 0.0
                    for yj, wj in zip(ys, wy):
                        row += wj * beam.density(xi, yj, z)
                    flux += wi * row
                want_shape = 1.0
        tau = quad(S, 0, z, limit=200)[0] / v if (stopping and z > 0) else 0.0
        want = n_line0 * math.exp(-tau) * want_shape
        if tol_at(z) <= 0.05:
            ctx.close(flux, want, "flux", rtol=tol_at(z) + (2e-6 if case["clamp"] else 1e-9), atol=0,
                      info="z=%r of L=%r, tau=%r, h=%r" % (z, L, tau, h))
        else:
            # the a-priori bound is an error of tau; beyond a few percent exp() is no longer linear in it and the bound says
            # nothing useful: only sign and finiteness are demanded there (coarse step x huge stopping, e.g. tau = 100)
            # (the linear interpolant's rounding, 1e-16 of the neighbouring node, may leave a value of either sign next to a node
            # that is itself 1e-60 of the source: no sign is demanded below 1e-12 of the unattenuated flux)
            ctx.check(math.isfinite(flux) and flux >= -1e-12 * n_line0, "flux", lambda: "flux %r at z=%r" % (flux, z))
            ctx.label("flux:bound-too-weak")
        if flux0 is None:
            flux0 = flux
        if not stopping:
            ctx.close(flux, flux0, "flux-constant-without-stopping", rtol=2e-6 if case["clamp"] else 1e-9)
    ctx.label("flux", "flux:clamp" if case["clamp"] else "flux:noclamp")
    if case["neutral"] and stopping and case.get("neutral_pos", 9) % (len(case["species"]) + 1) < len(case["species"]) and case.get("order") != "reversed":
        ctx.label("flux:neutral-before-ions")
    if case.get("explicit_calc") and diverging:
        ctx.label("flux:explicit-calculate")
    if case.get("bnode") or case.get("pnode"):
        ctx.label("flux:nested-nodes")
    if 1 + int(math.ceil(L / case["step"])) < 4:
        ctx.label("flux:4-node-minimum")
    if diverging:
        ctx.label("flux:diverging")
    if nonuniform and stopping:
        ctx.label("flux:nonuniform")
    if not stopping:
        ctx.label("flux:no-stopping")
    if case.get("hollow") and stopping:
        sv = [S(z) for z in np.linspace(0, L, nb)]
        pos = [i for i, v_ in enumerate(sv) if v_ > 0]
        if pos and any(v_ == 0 for v_ in sv[pos[0]:pos[-1]]):
            ctx.label("flux:zero-gap-between-lobes")
        ctx.label("flux:hollow")

    # ---- on-axis density never increases; zero outside [0, L]
    zz = np.linspace(0, L, 257)
    with ctx.cut("Beam.density"):
        ax = np.array([beam.density(0, 0, z) for z in zz])
        out = [beam.density(0.0, 0.0, -1e-9), beam.density(0.3 * sig, 0, -0.5), beam.density(0, 0, L * (1 + 1e-9) + 1e-12),
               beam.density(0.1 * sig, -0.2 * sig, L + 1.0)]
        ends = [beam.density(0, 0, 0.0), beam.density(0, 0, L)]
    ctx.check(np.all(np.diff(ax) <= 1e-12 * ax[0]), "monotone", lambda: "on-axis density increases: max step %r of %r at z=%r"
              % (float(np.diff(ax).max()), float(ax[0]), float(zz[int(np.argmax(np.diff(ax)))])))
    ctx.check(all(o == 0 for o in out), "zero-outside-length", lambda: "density outside [0, L]: %r" % (out,))
    # z = L belongs to the beam.  The value there is the last node's, reached through the linear interpolant of the last cell: once
    # that cell attenuates by more than e^-30 its rounding (1e-16 of the previous node) exceeds the node value and may return 0.0
    last_cell = h * (S(L - h) + S(L)) / (2 * v) if stopping else 0.0
    floor = -1e-12 * n_line0 / (2 * math.pi * sig * sig)
    ctx.check(ends[0] > 0 and ends[1] >= floor and (ends[1] > 0 or tau_L > 600 or last_cell > 30), "inside-ends",
              lambda: "density at z=0 / z=L: %r (tau_L=%r, last cell %r)" % (ends, tau_L, last_cell))
    ctx.close(ax[0], n_line0 / (2 * math.pi * sig * sig), "on-axis-source", rtol=1e-9)

    # ---- clamp: zero outside the clamp ellipse, positive inside
    px, py, pz, pin = case["probe"]
    z = pz * L
    sx, sy = math.sqrt(sig ** 2 + (z * tx) ** 2), math.sqrt(sig ** 2 + (z * ty) ** 2)
    if case["clamp"]:
        cs = case["clamp_sigma"]
        nrm = math.hypot(px, py)
        ux, uy = (px / nrm, py / nrm) if nrm > 0 else (1.0, 0.0)
        with ctx.cut("Beam.density"):
            d_out = beam.density(ux * cs * 1.001 * sx, uy * cs * 1.001 * sy, z)
            d_in = beam.density(ux * cs * 0.999 * pin * sx, uy * cs * 0.999 * pin * sy, z)
        ctx.check(d_out == 0, "clamp-outside", lambda: "density %r just outside the clamp ellipse" % d_out)
        ctx.check(d_in > 0 or tau_L > 600, "clamp-inside", lambda: "density %r inside the clamp ellipse" % d_in)

    # ---- direction field
    with ctx.cut("Beam.direction"):
        d0 = beam.direction(px * sig, py * sig, -0.1)
        d00 = beam.direction(px * sig, py * sig, 0.0)
    ctx.check((d0.x, d0.y, d0.z) == (0, 0, 1) and (d00.x, d00.y, d00.z) == (0, 0, 1), "direction-before-source",
              lambda: "direction at z<=0 is %r / %r" % (d0, d00))
    # the field is defined (unit vector, forward) right behind the source too, however small z is
    for zt in (1e-160, 1e-300, 5e-324):
        with ctx.cut("Beam.direction"):
            dt = beam.direction(px * sig, py * sig, zt)
        lt = math.sqrt(dt.x ** 2 + dt.y ** 2 + dt.z ** 2)
        ctx.check(abs(lt - 1) <= 1e-12 and dt.z > 0, "direction-unit", lambda: "direction %r at z=%r" % (dt, zt))
    # results handed out earlier stay what they were: directions at several points are collected first and read afterwards
    kp = [(px * sig * (0.3 + 0.2 * i), py * sig * (1.0 - 0.15 * i), L * u) for i, u in enumerate(case["zs"])] + [(0.0, 0.0, 0.5 * L)]
    with ctx.cut("Beam.direction"):
        kept, at_call = [], []
        for p_ in kp:
            dv = beam.direction(*p_)
            kept.append(dv)
            at_call.append((dv.x, dv.y, dv.z))
    later = [(dv.x, dv.y, dv.z) for dv in kept]
    ctx.check(later == at_call, "direction-kept", lambda: "direction vectors returned earlier changed after later calls: %r at the call, "
              "%r afterwards (points %r)" % (at_call, later, kp))
    x0, y0, z0, z1 = px * sx, py * sy, z, L

    def sxy(zc):
        return math.sqrt(sig ** 2 + (zc * tx) ** 2), math.sqrt(sig ** 2 + (zc * ty) ** 2)

    def slope(xc, yc, zc):
        with ctx.cut("Beam.direction"):
            d = beam.direction(xc, yc, zc)
        ln = math.sqrt(d.x ** 2 + d.y ** 2 + d.z ** 2)
        ctx.check(abs(ln - 1) <= 1e-12, "direction-unit", lambda: "|direction| = %r at %r" % (ln, (xc, yc, zc)))
        ctx.check(d.z > 0, "direction-forward", lambda: "direction %r points backwards" % (d,))
        return d.x / d.z, d.y / d.z

    n = 200
    hh = (z1 - z0) / n
    xc, yc, zc = x0, y0, z0
    for _ in range(n):
        k1 = slope(xc, yc, zc)
        k2 = slope(xc + 0.5 * hh * k1[0], yc + 0.5 * hh * k1[1], zc + 0.5 * hh)
        k3 = slope(xc + 0.5 * hh * k2[0], yc + 0.5 * hh * k2[1], zc + 0.5 * hh)
        k4 = slope(xc + hh * k3[0], yc + hh * k3[1], zc + hh)
        xc += hh / 6 * (k1[0] + 2 * k2[0] + 2 * k3[0] + k4[0])
        yc += hh / 6 * (k1[1] + 2 * k2[1] + 2 * k3[1] + k4[1])
        zc += hh
    s1x, s1y = sxy(z1)
    ctx.close([xc / s1x, yc / s1y], [x0 / sx, y0 / sy], "streamline", rtol=0, atol=1e-6 * (abs(px) + abs(py) + 1e-3))
    ctx.label("streamline")
    if b2c:
        with ctx.cut("Beam.density"):
            second = [beam2.density(*p) for p in pts2]
            dir2 = beam2.direction(*pts2[0])
            again = [beam.density(*p) for p in pts1]
        ctx.check([float(a).hex() for a in again] == [float(a).hex() for a in first], "two-beams-repeat",
                  lambda: "beam 1 answers differently after beam 2 was used: %r then %r at %r" % (first, again, pts1))
        if b2c["when"] == "before":
            ctx.check([float(a).hex() for a in second] == [float(a).hex() for a in second_first], "two-beams-repeat",
                      lambda: "beam 2 answers differently after beam 1 was used: %r then %r" % (second_first, second))
        m2 = getattr(EL, b2c["bel"]).atomic_weight
        v2 = math.sqrt(2 * b2c["energy"] * E / AMU)
        src2 = b2c["power"] / (b2c["energy"] * m2 * E) / v2 / (2 * math.pi * b2c["sigma"] ** 2)
        ctx.close(second[-2], src2, "two-beams-source", rtol=1e-9, info="on-axis density of beam 2 at its source")
        l2 = math.sqrt(dir2.x ** 2 + dir2.y ** 2 + dir2.z ** 2)
        ctx.check(abs(l2 - 1) <= 1e-12, "direction-unit", lambda: "|direction| of beam 2 = %r" % l2)
        # an independent single-beam world with beam 2's parameters gives the same numbers (same arithmetic: bit for bit)
        with ctx.cut("construct"):
            w3, p3, b3, _ = build(dict(case, beam2=None, explicit_calc=False, bnode=None, **{k: b2c[k] for k in
                                       ("energy", "power", "bel", "sigma", "divx", "divy", "length", "step", "clamp", "clamp_sigma", "bt", "br")}))
        with ctx.cut("Beam.density"):
            alone = [b3.density(*p) for p in pts2]
        ctx.close(second, alone, "two-beams-alone", rtol=1e-12, info="beam 2 next to beam 1 vs beam 2 alone in a fresh world")
    ctx.nt((diverging and stopping and nonuniform) or case["clamp"])


SUBCHECKS = {
    "beam": Given(strategy, run, quick=320, thorough=16000),
}
