#!/bin/bash
# usage: tools_round.sh <round> C01 C02 ...   -- measures the seeded changes of that round delivered in /tmp/mut<round>_out_<ID>
# (patch<k>.diff, demo<k>.py, notes<k>.md), one after another, with tools_seeded.py; already measured ones are skipped
r=$1; shift
cd "$(dirname "$(readlink -f "$0")")"
for id in "$@"; do
  d=/tmp/mut${r}_out_$id
  for k in 1 2 3; do
    [ -f $d/patch$k.diff ] && [ -f $d/demo$k.py ] || continue
    [ -f seeded/$id-r${r}mut$k/meta.json ] && { echo "$id-r${r}mut$k already measured"; continue; }
    needs=$(head -c 700 $d/notes$k.md 2>/dev/null | tr '\n' ' ')
    echo "=== $id-r${r}mut$k"
    python3 tools_seeded.py $id $id-r${r}mut$k $d/patch$k.diff $d/demo$k.py --needs "$needs" 2>&1 | grep -vE "^\s*$" | tail -8
  done
done
