import sys, time, json
sys.path.insert(0, '/verif')
from vf import bootstrap_repo; bootstrap_repo()
from vf import core
import vf.props.c15 as m
ev = core.Evidence()
c0=time.process_time(); t=time.time()
core.drive_machine("hist", m.SUBCHECKS["hist"], int(sys.argv[1]), int(sys.argv[2]), "quick", ev)
print("wall", time.time()-t, "cpu", time.process_time()-c0, "evals", ev.evaluations, ev.per_sub)
for v in ev.violations: print("VIOL", v["subcheck"], v["message"][:900]); print(json.dumps(v["case"])[:1800])
for e in ev.errors: print("ERR", e["error"][:3000])
req = [r[5:] for r in m.REQUIRED_LABELS]
missing = [r for r in req if ("hist:"+r) not in ev.labels]
print("missing", len(missing), missing[:60])
print({k:v for k,v in ev.labels.items() if not any(k.startswith("hist:"+p) for p in ("set","wrong:","reject:"))})
