#!/bin/bash
# usage: tools_rerun.sh <name> [checks]   -- re-measures an already recorded seeded change (seeded/<name>) against the checks as they are now
cd "$(dirname "$(readlink -f "$0")")"
n=$1; id=${n%%-*}
needs=$(python3 -c "import json;print(json.load(open('seeded/$n/meta.json')).get('needs',''))")
cp seeded/$n/patch.diff /tmp/rerun_$n.diff; cp seeded/$n/demo.py /tmp/rerun_$n.py
python3 tools_seeded.py $id $n /tmp/rerun_$n.diff /tmp/rerun_$n.py --notests --needs "$needs" ${2:+--checks $2} 2>&1 | grep -E "quick:|thorough:|saved|demo:"
rm -f /tmp/rerun_$n.diff /tmp/rerun_$n.py
